// C ABI driver for libopenwater.so (property C03b).
// Reads cases from a text file, places every buffer against a PROT_NONE guard page (mode 0: the end of the
// buffer touches the guard page, mode 1: the start does), fills the rest of the data pages with canaries,
// calls RunSingleModel and prints outputs/states bit patterns and the canary verdict.
#define _GNU_SOURCE
#include <dlfcn.h>
#include <stdint.h>
#include <stdio.h>
#include <stdlib.h>
#include <string.h>
#include <sys/mman.h>
#include <unistd.h>

typedef void (*run_fn)(char *, double *, int, int, int, double *, int, int, double *, int, int, double *, int, int, int, unsigned char);

static const uint64_t CANARY = 0xC3C3C3C3A5A5A5A5ULL;

typedef struct {
  unsigned char *map;
  size_t maplen;
  size_t datalen; /* bytes of the data pages */
  double *buf;
  size_t n;
} gbuf;

static long pagesz;

static gbuf galloc(size_t n, int mode) {
  gbuf g;
  size_t bytes = n * sizeof(double);
  size_t pages = (bytes + pagesz - 1) / pagesz;
  if (pages == 0) pages = 1;
  g.datalen = pages * pagesz;
  g.maplen = g.datalen + 2 * pagesz;
  g.map = mmap(NULL, g.maplen, PROT_READ | PROT_WRITE, MAP_PRIVATE | MAP_ANONYMOUS, -1, 0);
  if (g.map == MAP_FAILED) { perror("mmap"); exit(3); }
  uint64_t *w = (uint64_t *)(g.map + pagesz);
  for (size_t i = 0; i < g.datalen / 8; i++) w[i] = CANARY;
  mprotect(g.map, pagesz, PROT_NONE);
  mprotect(g.map + pagesz + g.datalen, pagesz, PROT_NONE);
  if (mode == 0)
    g.buf = (double *)(g.map + pagesz + g.datalen - bytes);
  else
    g.buf = (double *)(g.map + pagesz);
  g.n = n;
  return g;
}

static int gcheck(gbuf *g) {
  uint64_t *w = (uint64_t *)(g->map + pagesz);
  uint64_t *lo = (uint64_t *)g->buf, *hi = lo + g->n;
  for (size_t i = 0; i < g->datalen / 8; i++) {
    uint64_t *p = w + i;
    if ((p < lo || p >= hi) && *p != CANARY) return 0;
  }
  return 1;
}

static void gfree(gbuf *g) { munmap(g->map, g->maplen); }

static void readvals(FILE *f, double *dst, size_t n) {
  for (size_t i = 0; i < n; i++) {
    unsigned long long bits;
    if (fscanf(f, "%llx", &bits) != 1) { fprintf(stderr, "driver: short case file\n"); exit(3); }
    uint64_t b = bits;
    memcpy(&dst[i], &b, 8);
  }
}

static void printvals(const char *tag, double *src, size_t n) {
  printf("%s %zu", tag, n);
  for (size_t i = 0; i < n; i++) {
    uint64_t b;
    memcpy(&b, &src[i], 8);
    printf(" %016llx", (unsigned long long)b);
  }
  printf("\n");
}

int main(int argc, char **argv) {
  if (argc < 3) { fprintf(stderr, "usage: driver lib.so cases.txt\n"); return 3; }
  pagesz = sysconf(_SC_PAGESIZE);
  void *h = dlopen(argv[1], RTLD_NOW);
  if (!h) { fprintf(stderr, "dlopen: %s\n", dlerror()); return 3; }
  run_fn run = (run_fn)dlsym(h, "RunSingleModel");
  if (!run) { fprintf(stderr, "dlsym: %s\n", dlerror()); return 3; }
  FILE *f = fopen(argv[2], "r");
  if (!f) { perror("cases"); return 3; }
  int id;
  while (fscanf(f, "%d", &id) == 1) {
    char name[256];
    int nis, ni, nt, np, nps, nc, ns, statesNull, initStates, noc, no, not_, mode;
    if (fscanf(f, "%255s %d %d %d %d %d %d %d %d %d %d %d %d %d", name, &nis, &ni, &nt, &np, &nps, &nc, &ns, &statesNull, &initStates, &noc, &no, &not_, &mode) != 14) {
      fprintf(stderr, "driver: bad case header\n");
      return 3;
    }
    gbuf in = galloc((size_t)nis * ni * nt, mode), pa = galloc((size_t)np * nps, mode), st = galloc((size_t)nc * ns, mode), out = galloc((size_t)noc * no * not_, mode);
    readvals(f, in.buf, in.n);
    readvals(f, pa.buf, pa.n);
    readvals(f, st.buf, st.n);
    memset(out.buf, 0, out.n * sizeof(double));
    printf("BEGIN %d\n", id);
    fflush(stdout);
    run(name, in.buf, nis, ni, nt, pa.buf, np, nps, statesNull ? NULL : st.buf, nc, ns, out.buf, noc, no, not_, (unsigned char)initStates);
    printvals("OUT", out.buf, out.n);
    printvals("STATES", st.buf, st.n);
    printvals("INPUTS", in.buf, in.n);
    printvals("PARAMS", pa.buf, pa.n);
    printf("CANARIES %d %d %d %d\n", gcheck(&in), gcheck(&pa), gcheck(&st), gcheck(&out));
    printf("END %d\n", id);
    fflush(stdout);
    gfree(&in); gfree(&pa); gfree(&st); gfree(&out);
  }
  return 0;
}
