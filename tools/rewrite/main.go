// rewrite: source-to-source instrumentation of the CURRENT /repo working tree for the controlled scheduler.
//
//	rewrite -out DIR [-add pkgdir=file.go ...] file.go ...
//
// writes rewritten copies of the given files under DIR and DIR/overlay.json mapping the original paths to
// them (for `go build -overlay`). Extra files can be added to package directories (-add).
//
// Rules (syntactic, local):
//
//	go FUNCLIT(args)            -> func(params){ vrt.Go(func(){ BODY }) }(args)
//	go f(args)                  -> { f0 := f; a0 := arg0; ...; vrt.Go(func(){ f0(a0, ...) }) }
//	chan T (any position)       -> *vrt.Chan[T]
//	make(chan T [,n])           -> vrt.MakeChan[T](n)   (vrt.MakeChanInt / MakeChanString for int / string)
//	ch <- v                     -> ch.Send(v)
//	<-ch                        -> ch.Recv()
//	import "sync"               -> import sync "owverif.local/verif/vrt/vsync"
//	time.Sleep(d)               -> vrt.Sleep(d)
//	os.Exit(n)                  -> vrt.Exit(n)
//
//	close(ch)                   -> ch.Close()
//	v, ok := <-ch               -> v, ok := ch.RecvOk()
//	for v := range ch {..}      -> for { v, ok := ch.RecvOk(); if !ok { break }; .. }   (ch declared with a channel type in the file)
//
// What it cannot model: select is reported by the tool (exit 2 with file:line); len/cap of a channel
// and a range over a channel whose declaration is not in the same file make the instrumented build fail. In both cases the calling check
// reports that it cannot instrument this tree (see scripts/sched_build.sh).
package main

import (
	"bytes"
	"encoding/json"
	"flag"
	"fmt"
	"go/ast"
	"go/parser"
	"go/printer"
	"go/token"
	"os"
	"path/filepath"
	"reflect"
	"strings"
)

type multi []string

func (m *multi) String() string     { return strings.Join(*m, ",") }
func (m *multi) Set(s string) error { *m = append(*m, s); return nil }

var fset = token.NewFileSet()

func fail(pos token.Pos, format string, a ...interface{}) {
	fmt.Fprintf(os.Stderr, "rewrite: unsupported construct at %s: %s\n", fset.Position(pos), fmt.Sprintf(format, a...))
	os.Exit(2)
}

func sel(x, name string) *ast.SelectorExpr {
	return &ast.SelectorExpr{X: ast.NewIdent(x), Sel: ast.NewIdent(name)}
}

type rewriter struct {
	usedVrt          bool
	timeUsed, osUsed bool
	tmp              int
	chans            map[string]bool // names declared with a channel type anywhere in the file (for `range ch`)
	counts           map[string]int
}

// chanOf builds the type *vrt.Chan[elem].
func chanOf(elem ast.Expr) ast.Expr {
	return &ast.StarExpr{X: &ast.IndexExpr{X: sel("vrt", "Chan"), Index: elem}}
}

// elemOfChan returns T when e is the rewritten type *vrt.Chan[T].
func elemOfChan(e ast.Expr) ast.Expr {
	st, ok := e.(*ast.StarExpr)
	if !ok {
		return nil
	}
	ix, ok := st.X.(*ast.IndexExpr)
	if !ok {
		return nil
	}
	if se, ok := ix.X.(*ast.SelectorExpr); ok {
		if pkg, ok := se.X.(*ast.Ident); ok && pkg.Name == "vrt" && se.Sel.Name == "Chan" {
			return ix.Index
		}
	}
	return nil
}

// expr rewrites one expression whose sub-expressions have been rewritten already.
func (r *rewriter) expr(e ast.Expr) ast.Expr {
	switch x := e.(type) {
	case *ast.ChanType: // any channel type, directional or not, in any position
		r.usedVrt = true
		return chanOf(x.Value)
	case *ast.UnaryExpr:
		if x.Op == token.ARROW {
			r.counts["recv"]++
			return &ast.CallExpr{Fun: &ast.SelectorExpr{X: x.X, Sel: ast.NewIdent("Recv")}}
		}
	case *ast.CallExpr:
		if id, ok := x.Fun.(*ast.Ident); ok && id.Name == "make" && len(x.Args) >= 1 {
			if elem := elemOfChan(x.Args[0]); elem != nil {
				var n ast.Expr = &ast.BasicLit{Kind: token.INT, Value: "0"}
				if len(x.Args) > 1 {
					n = x.Args[1]
				}
				r.usedVrt = true
				r.counts["makechan"]++
				if id, ok := elem.(*ast.Ident); ok && (id.Name == "int" || id.Name == "string") {
					name := "MakeChanInt"
					if id.Name == "string" {
						name = "MakeChanString"
					}
					return &ast.CallExpr{Fun: sel("vrt", name), Args: []ast.Expr{n}}
				}
				return &ast.CallExpr{Fun: &ast.IndexExpr{X: sel("vrt", "MakeChan"), Index: elem}, Args: []ast.Expr{n}}
			}
		}
		if id, ok := x.Fun.(*ast.Ident); ok && (id.Name == "len" || id.Name == "cap") && len(x.Args) == 1 {
			// len(ch) / cap(ch) of something declared with a channel type in this file (a name or a struct field)
			isChan := false
			if a, ok := x.Args[0].(*ast.Ident); ok && r.chans[a.Name] {
				isChan = true
			}
			if a, ok := x.Args[0].(*ast.SelectorExpr); ok && r.chans[a.Sel.Name] {
				isChan = true
			}
			if isChan {
				r.counts["len-cap-chan"]++
				return &ast.CallExpr{Fun: &ast.SelectorExpr{X: x.Args[0], Sel: ast.NewIdent(map[string]string{"len": "Len", "cap": "Cap"}[id.Name])}}
			}
		}
		if id, ok := x.Fun.(*ast.Ident); ok && id.Name == "close" && len(x.Args) == 1 {
			r.counts["close"]++
			return &ast.CallExpr{Fun: &ast.SelectorExpr{X: x.Args[0], Sel: ast.NewIdent("Close")}}
		}
		if s, ok := x.Fun.(*ast.SelectorExpr); ok {
			if pkg, ok := s.X.(*ast.Ident); ok {
				if pkg.Name == "time" && s.Sel.Name == "Sleep" {
					r.usedVrt, r.timeUsed = true, true
					r.counts["sleep"]++
					x.Fun = sel("vrt", "Sleep")
				}
				if pkg.Name == "os" && s.Sel.Name == "Exit" {
					r.usedVrt, r.osUsed = true, true
					r.counts["exit"]++
					x.Fun = sel("vrt", "Exit")
				}
			}
		}
	}
	return e
}

// stmt rewrites one statement whose parts have been rewritten already.
func (r *rewriter) stmt(s ast.Stmt) ast.Stmt {
	switch x := s.(type) {
	case *ast.GoStmt:
		r.usedVrt = true
		r.counts["go"]++
		if lit, ok := x.Call.Fun.(*ast.FuncLit); ok {
			inner := &ast.FuncLit{Type: &ast.FuncType{Params: &ast.FieldList{}}, Body: lit.Body}
			spawn := &ast.ExprStmt{X: &ast.CallExpr{Fun: sel("vrt", "Go"), Args: []ast.Expr{inner}}}
			outer := &ast.FuncLit{Type: lit.Type, Body: &ast.BlockStmt{List: []ast.Stmt{spawn}}}
			return &ast.ExprStmt{X: &ast.CallExpr{Fun: outer, Args: x.Call.Args}}
		}
		// go f(a, b): the function value and the arguments are evaluated now, the call runs in the new thread
		r.tmp++
		var pre []ast.Stmt
		bind := func(e ast.Expr, k string) ast.Expr {
			name := ast.NewIdent(fmt.Sprintf("vrtGo%d%s", r.tmp, k))
			pre = append(pre, &ast.AssignStmt{Lhs: []ast.Expr{name}, Tok: token.DEFINE, Rhs: []ast.Expr{e}})
			return ast.NewIdent(name.Name)
		}
		call := &ast.CallExpr{Fun: bind(x.Call.Fun, "f"), Ellipsis: x.Call.Ellipsis}
		for i, a := range x.Call.Args {
			call.Args = append(call.Args, bind(a, fmt.Sprintf("a%d", i)))
		}
		inner := &ast.FuncLit{Type: &ast.FuncType{Params: &ast.FieldList{}}, Body: &ast.BlockStmt{List: []ast.Stmt{&ast.ExprStmt{X: call}}}}
		pre = append(pre, &ast.ExprStmt{X: &ast.CallExpr{Fun: sel("vrt", "Go"), Args: []ast.Expr{inner}}})
		return &ast.BlockStmt{List: pre}
	case *ast.SendStmt:
		r.counts["send"]++
		return &ast.ExprStmt{X: &ast.CallExpr{Fun: &ast.SelectorExpr{X: x.Chan, Sel: ast.NewIdent("Send")}, Args: []ast.Expr{x.Value}}}
	case *ast.SelectStmt:
		fail(x.Pos(), "select")
	case *ast.AssignStmt:
		// v, ok := <-ch  (the receive has been rewritten to ch.Recv() already)
		if len(x.Lhs) == 2 && len(x.Rhs) == 1 {
			if call, ok := x.Rhs[0].(*ast.CallExpr); ok && len(call.Args) == 0 {
				if se, ok := call.Fun.(*ast.SelectorExpr); ok && se.Sel.Name == "Recv" {
					se.Sel = ast.NewIdent("RecvOk")
					r.counts["recv-ok"]++
				}
			}
		}
	case *ast.DeferStmt:
		// defer close(ch)  ->  defer ch.Close()   (the call of a defer statement is not an expression slot of its own)
		if id, ok := x.Call.Fun.(*ast.Ident); ok && id.Name == "close" && len(x.Call.Args) == 1 {
			r.counts["close"]++
			r.usedVrt = true
			x.Call = &ast.CallExpr{Fun: &ast.SelectorExpr{X: x.Call.Args[0], Sel: ast.NewIdent("Close")}}
		}
	case *ast.RangeStmt:
		// for v := range ch  ->  for { v, ok := ch.RecvOk(); if !ok { break }; body }   (ch known to be a channel)
		isChan := false
		if id, ok := x.X.(*ast.Ident); ok && r.chans[id.Name] {
			isChan = true
		}
		if se, ok := x.X.(*ast.SelectorExpr); ok && r.chans[se.Sel.Name] { // a struct field declared with a channel type in this file
			isChan = true
		}
		if isChan && x.Value == nil {
			r.tmp++
			okName := fmt.Sprintf("vrtOk%d", r.tmp)
			var key ast.Expr = ast.NewIdent("_")
			tok := token.DEFINE
			if x.Key != nil {
				key = x.Key
				tok = x.Tok
				if tok == token.ASSIGN { // the loop variable exists already: ok must be declared separately
					tok = token.DEFINE
					key = ast.NewIdent(fmt.Sprintf("vrtV%d", r.tmp))
				}
			}
			recv := &ast.AssignStmt{Lhs: []ast.Expr{key, ast.NewIdent(okName)}, Tok: tok, Rhs: []ast.Expr{&ast.CallExpr{Fun: &ast.SelectorExpr{X: x.X, Sel: ast.NewIdent("RecvOk")}}}}
			stop := &ast.IfStmt{Cond: &ast.UnaryExpr{Op: token.NOT, X: ast.NewIdent(okName)}, Body: &ast.BlockStmt{List: []ast.Stmt{&ast.BranchStmt{Tok: token.BREAK}}}}
			body := []ast.Stmt{recv, stop}
			if x.Key != nil && x.Tok == token.ASSIGN {
				body = append(body, &ast.AssignStmt{Lhs: []ast.Expr{x.Key}, Tok: token.ASSIGN, Rhs: []ast.Expr{ast.NewIdent(fmt.Sprintf("vrtV%d", r.tmp))}})
			}
			body = append(body, x.Body.List...)
			r.counts["range-chan"]++
			return &ast.ForStmt{Body: &ast.BlockStmt{List: body}}
		}
	}
	// (a range over a channel, a comma-ok receive and len/cap of a channel do not compile against *vrt.Chan: the
	// instrumented build fails and the check reports that it cannot instrument this tree)
	return s
}

var (
	exprType = reflect.TypeOf((*ast.Expr)(nil)).Elem()
	stmtType = reflect.TypeOf((*ast.Stmt)(nil)).Elem()
)

// walk rewrites every expression and statement below v, children first.
func (r *rewriter) walk(v reflect.Value) {
	switch v.Kind() {
	case reflect.Ptr, reflect.Interface:
		if v.IsNil() {
			return
		}
		switch v.Interface().(type) {
		case *ast.Object, *ast.Scope, *ast.CommentGroup, *ast.Comment:
			return
		}
		r.walk(v.Elem())
	case reflect.Struct:
		for i := 0; i < v.NumField(); i++ {
			r.slot(v.Field(i))
		}
	case reflect.Slice:
		for i := 0; i < v.Len(); i++ {
			r.slot(v.Index(i))
		}
	}
}

func (r *rewriter) slot(f reflect.Value) {
	if !f.CanSet() {
		return
	}
	switch {
	case f.Type() == exprType:
		if f.IsNil() {
			return
		}
		r.walk(f)
		if e := r.expr(f.Interface().(ast.Expr)); e != nil {
			f.Set(reflect.ValueOf(e))
		}
	case f.Type() == stmtType:
		if f.IsNil() {
			return
		}
		r.walk(f)
		f.Set(reflect.ValueOf(r.stmt(f.Interface().(ast.Stmt))))
	default:
		r.walk(f)
	}
}

func (r *rewriter) file(f *ast.File) {
	r.chans = map[string]bool{}
	isChanMake := func(e ast.Expr) bool {
		call, ok := e.(*ast.CallExpr)
		if !ok || len(call.Args) == 0 {
			return false
		}
		id, ok := call.Fun.(*ast.Ident)
		_, isChan := call.Args[0].(*ast.ChanType)
		return ok && id.Name == "make" && isChan
	}
	ast.Inspect(f, func(n ast.Node) bool {
		switch x := n.(type) {
		case *ast.AssignStmt:
			for i, rhs := range x.Rhs {
				if i < len(x.Lhs) && isChanMake(rhs) {
					if id, ok := x.Lhs[i].(*ast.Ident); ok {
						r.chans[id.Name] = true
					}
				}
			}
		case *ast.ValueSpec:
			_, typed := x.Type.(*ast.ChanType)
			for i, nm := range x.Names {
				if typed || (i < len(x.Values) && isChanMake(x.Values[i])) {
					r.chans[nm.Name] = true
				}
			}
		case *ast.Field:
			if _, ok := x.Type.(*ast.ChanType); ok {
				for _, nm := range x.Names {
					r.chans[nm.Name] = true
				}
			}
		}
		return true
	})
	r.walk(reflect.ValueOf(f))
	for _, imp := range f.Imports {
		if imp.Path.Value == `"sync"` {
			imp.Path.Value = `"owverif.local/verif/vrt/vsync"`
			imp.Name = ast.NewIdent("sync")
			r.counts["sync-import"]++
		}
	}
}

func main() {
	out := flag.String("out", "", "output directory")
	var adds, probes multi
	flag.Var(&adds, "add", "pkgdir=file.go: add a file to a package directory through the overlay")
	flag.Var(&probes, "probe", "Func:N  insert vrt.Probe(\"Func\", <Nth int parameter>, 0) at entry and a deferred Func.exit probe")
	renameMain := flag.String("rename-main", "", "rename func main() to this name")
	skipUnchanged := flag.Bool("skip-unchanged", false, "leave files in which nothing was rewritten out of the overlay")
	flag.Parse()
	if *out == "" {
		fmt.Fprintln(os.Stderr, "usage: rewrite -out DIR [-add pkgdir=file] files...")
		os.Exit(2)
	}
	os.MkdirAll(*out, 0755)
	overlay := map[string]string{}
	total := map[string]int{}
	for k, path := range flag.Args() {
		src, err := os.ReadFile(path)
		if err != nil {
			fmt.Fprintln(os.Stderr, "rewrite:", err)
			os.Exit(2)
		}
		f, err := parser.ParseFile(fset, path, src, parser.ParseComments)
		if err != nil {
			fmt.Fprintln(os.Stderr, "rewrite:", err)
			os.Exit(2)
		}
		r := &rewriter{counts: map[string]int{}}
		r.file(f)
		for _, d := range f.Decls {
			fd, ok := d.(*ast.FuncDecl)
			if !ok || fd.Body == nil {
				continue
			}
			if *renameMain != "" && fd.Name.Name == "main" && fd.Recv == nil {
				fd.Name.Name = *renameMain
			}
			for _, pr := range probes {
				parts := strings.SplitN(pr, ":", 2)
				if fd.Name.Name != parts[0] {
					continue
				}
				n := 0
				fmt.Sscanf(parts[1], "%d", &n)
				// the n-th parameter name
				var names []string
				for _, fld := range fd.Type.Params.List {
					for _, nm := range fld.Names {
						names = append(names, nm.Name)
					}
				}
				if n >= len(names) {
					fail(fd.Pos(), "probe %s: no parameter %d", pr, n)
				}
				arg := &ast.CallExpr{Fun: ast.NewIdent("int"), Args: []ast.Expr{ast.NewIdent(names[n])}}
				entry := &ast.ExprStmt{X: &ast.CallExpr{Fun: sel("vrt", "Probe"), Args: []ast.Expr{&ast.BasicLit{Kind: token.STRING, Value: fmt.Sprintf("%q", parts[0])}, arg, &ast.BasicLit{Kind: token.INT, Value: "0"}}}}
				exit := &ast.DeferStmt{Call: &ast.CallExpr{Fun: sel("vrt", "Probe"), Args: []ast.Expr{&ast.BasicLit{Kind: token.STRING, Value: fmt.Sprintf("%q", parts[0]+".exit")}, arg, &ast.BasicLit{Kind: token.INT, Value: "0"}}}}
				fd.Body.List = append([]ast.Stmt{entry, exit}, fd.Body.List...)
				r.usedVrt = true
				r.counts["probe"]++
			}
		}
		changed := 0
		for _, v := range r.counts {
			changed += v
		}
		if *skipUnchanged && changed == 0 && !(*renameMain != "" && strings.Contains(string(src), "func main()")) {
			continue
		}
		var buf bytes.Buffer
		// drop comments: positions of rewritten nodes would otherwise scramble them
		f.Comments = nil
		if err := printer.Fprint(&buf, fset, f); err != nil {
			fmt.Fprintln(os.Stderr, "rewrite:", err)
			os.Exit(2)
		}
		text := buf.String()
		// comments were dropped: put a build constraint of the original file back, and raise the language version of the
		// rewritten file (it may use a generic channel type; the repository's go.mod still says go 1.12)
		constraint := ""
		for _, line := range strings.Split(string(src), "\n") {
			if strings.HasPrefix(line, "package ") {
				break
			}
			if strings.HasPrefix(line, "//go:build ") {
				constraint = strings.TrimSpace(strings.TrimPrefix(line, "//go:build "))
			}
		}
		switch {
		case constraint != "" && r.usedVrt:
			text = "//go:build (" + constraint + ") && go1.18\n\n" + text
		case constraint != "":
			text = "//go:build " + constraint + "\n\n" + text
		case r.usedVrt:
			text = "//go:build go1.18\n\n" + text
		}
		if r.usedVrt {
			text = strings.Replace(text, "import (", "import (\n\tvrt \"owverif.local/verif/vrt\"", 1)
			if !strings.Contains(text, "vrt \"owverif.local/verif/vrt\"") {
				text = strings.Replace(text, "\nimport ", "\nimport vrt \"owverif.local/verif/vrt\"\nimport ", 1)
			}
			if !strings.Contains(text, "vrt \"owverif.local/verif/vrt\"") { // a file without imports
				i := strings.Index(text, "\npackage ")
				if strings.HasPrefix(text, "package ") {
					i = 0
				}
				j := i + strings.Index(text[i+1:], "\n") + 1
				text = text[:j+1] + "\nimport vrt \"owverif.local/verif/vrt\"\n" + text[j+1:]
			}
		}
		if r.timeUsed {
			text += "\nvar _ = time.Now\n"
		}
		if r.osUsed {
			text += "\nvar _ = os.Getpid\n"
		}
		dst := filepath.Join(*out, fmt.Sprintf("%03d_%s", k, filepath.Base(path)))
		if err := os.WriteFile(dst, []byte(text), 0644); err != nil {
			fmt.Fprintln(os.Stderr, "rewrite:", err)
			os.Exit(2)
		}
		abs, _ := filepath.Abs(path)
		overlay[abs] = dst
		for k, v := range r.counts {
			total[k] += v
		}
	}
	for _, a := range adds {
		parts := strings.SplitN(a, "=", 2)
		src, _ := filepath.Abs(parts[1])
		overlay[filepath.Join(parts[0], filepath.Base(parts[1]))] = src
	}
	b, _ := json.MarshalIndent(map[string]interface{}{"Replace": overlay}, "", " ")
	os.WriteFile(filepath.Join(*out, "overlay.json"), b, 0644)
	sum, _ := json.Marshal(total)
	os.WriteFile(filepath.Join(*out, "summary.json"), sum, 0644)
	fmt.Printf("rewrite: %d files, %s\n", len(flag.Args()), sum)
}
