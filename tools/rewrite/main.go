// rewrite: source-to-source instrumentation of the CURRENT /repo working tree for the controlled scheduler.
//
//	rewrite -out DIR [-add pkgdir=file.go ...] file.go ...
//
// writes rewritten copies of the given files under DIR and DIR/overlay.json mapping the original paths to
// them (for `go build -overlay`). Extra files can be added to package directories (-add).
//
// Rules (syntactic, local):
//	go FUNCLIT(args)            -> func(params){ vrt.Go(func(){ BODY }) }(args)
//	go f(args)                  -> func(p0.. T){ vrt.Go(func(){ f(p0..) }) }(args)   (not needed today: unsupported => error)
//	make(chan int|string [,n])  -> vrt.MakeChanInt(n) / vrt.MakeChanString(n)
//	ch <- v                     -> ch.Send(v)
//	<-ch                        -> ch.Recv()
//	import "sync"               -> import sync "owverif.local/verif/vrt/vsync"
//	time.Sleep(d)               -> vrt.Sleep(d)
//	os.Exit(n)                  -> vrt.Exit(n)
// Anything it cannot model (select, close, range over a channel, other channel element types, a chan type
// in a declaration) is a hard error: the tool exits 2 with file:line.
package main

import (
	"bytes"
	"encoding/json"
	"flag"
	"fmt"
	"go/ast"
	"go/parser"
	"go/printer"
	"go/token"
	"os"
	"path/filepath"
	"strings"
)

type multi []string

func (m *multi) String() string     { return strings.Join(*m, ",") }
func (m *multi) Set(s string) error { *m = append(*m, s); return nil }

var fset = token.NewFileSet()

func fail(pos token.Pos, format string, a ...interface{}) {
	fmt.Fprintf(os.Stderr, "rewrite: unsupported construct at %s: %s\n", fset.Position(pos), fmt.Sprintf(format, a...))
	os.Exit(2)
}

func sel(x, name string) *ast.SelectorExpr {
	return &ast.SelectorExpr{X: ast.NewIdent(x), Sel: ast.NewIdent(name)}
}

type rewriter struct {
	usedVrt          bool
	timeUsed, osUsed bool
	counts           map[string]int
}

func (r *rewriter) expr(e ast.Expr) ast.Expr {
	switch x := e.(type) {
	case *ast.UnaryExpr:
		if x.Op == token.ARROW {
			r.counts["recv"]++
			return &ast.CallExpr{Fun: &ast.SelectorExpr{X: x.X, Sel: ast.NewIdent("Recv")}}
		}
	case *ast.CallExpr:
		if id, ok := x.Fun.(*ast.Ident); ok && id.Name == "make" && len(x.Args) >= 1 {
			if ct, ok := x.Args[0].(*ast.ChanType); ok {
				elem, _ := ct.Value.(*ast.Ident)
				if elem == nil || (elem.Name != "int" && elem.Name != "string") {
					fail(x.Pos(), "make(chan T) with T other than int/string")
				}
				var n ast.Expr = &ast.BasicLit{Kind: token.INT, Value: "0"}
				if len(x.Args) > 1 {
					n = x.Args[1]
				}
				r.usedVrt = true
				r.counts["makechan"]++
				name := "MakeChanInt"
				if elem.Name == "string" {
					name = "MakeChanString"
				}
				return &ast.CallExpr{Fun: sel("vrt", name), Args: []ast.Expr{n}}
			}
		}
		if id, ok := x.Fun.(*ast.Ident); ok && id.Name == "close" {
			fail(x.Pos(), "close(ch)")
		}
		if s, ok := x.Fun.(*ast.SelectorExpr); ok {
			if pkg, ok := s.X.(*ast.Ident); ok {
				if pkg.Name == "time" && s.Sel.Name == "Sleep" {
					r.usedVrt, r.timeUsed = true, true
					r.counts["sleep"]++
					x.Fun = sel("vrt", "Sleep")
				}
				if pkg.Name == "os" && s.Sel.Name == "Exit" {
					r.usedVrt, r.osUsed = true, true
					r.counts["exit"]++
					x.Fun = sel("vrt", "Exit")
				}
			}
		}
	}
	return e
}

// apply walks the file, replacing expressions and statements in place.
func (r *rewriter) file(f *ast.File) {
	// statements first (they contain expressions that are rewritten afterwards)
	var stmts func(list []ast.Stmt)
	rewriteStmt := func(s ast.Stmt) ast.Stmt {
		switch x := s.(type) {
		case *ast.GoStmt:
			lit, ok := x.Call.Fun.(*ast.FuncLit)
			if !ok {
				fail(x.Pos(), "go statement on something other than a function literal")
			}
			r.usedVrt = true
			r.counts["go"]++
			inner := &ast.FuncLit{Type: &ast.FuncType{Params: &ast.FieldList{}}, Body: lit.Body}
			spawn := &ast.ExprStmt{X: &ast.CallExpr{Fun: sel("vrt", "Go"), Args: []ast.Expr{inner}}}
			outer := &ast.FuncLit{Type: lit.Type, Body: &ast.BlockStmt{List: []ast.Stmt{spawn}}}
			return &ast.ExprStmt{X: &ast.CallExpr{Fun: outer, Args: x.Call.Args}}
		case *ast.SendStmt:
			r.counts["send"]++
			return &ast.ExprStmt{X: &ast.CallExpr{Fun: &ast.SelectorExpr{X: x.Chan, Sel: ast.NewIdent("Send")}, Args: []ast.Expr{x.Value}}}
		case *ast.SelectStmt:
			fail(x.Pos(), "select")
		case *ast.RangeStmt:
			// a range over a channel cannot be recognised syntactically; channels only come from make(chan ..) which
			// is rewritten to a *vrt.Chan, and ranging over that does not compile: caught by the compiler.
		}
		return s
	}
	stmts = func(list []ast.Stmt) {
		for i := range list {
			list[i] = rewriteStmt(list[i])
		}
	}
	ast.Inspect(f, func(n ast.Node) bool {
		switch x := n.(type) {
		case *ast.BlockStmt:
			stmts(x.List)
		case *ast.CaseClause:
			stmts(x.Body)
		case *ast.CommClause:
			stmts(x.Body)
		case *ast.LabeledStmt:
			x.Stmt = rewriteStmt(x.Stmt)
		case *ast.ChanType:
			// only allowed as the argument of make(), which is replaced below before we get here on a second pass
		}
		return true
	})
	// expressions: replace through parents
	ast.Inspect(f, func(n ast.Node) bool {
		switch x := n.(type) {
		case *ast.AssignStmt:
			for i := range x.Rhs {
				x.Rhs[i] = r.expr(x.Rhs[i])
			}
			for i := range x.Lhs {
				x.Lhs[i] = r.expr(x.Lhs[i])
			}
		case *ast.ExprStmt:
			x.X = r.expr(x.X)
		case *ast.CallExpr:
			for i := range x.Args {
				x.Args[i] = r.expr(x.Args[i])
			}
			x.Fun = r.expr(x.Fun)
		case *ast.BinaryExpr:
			x.X, x.Y = r.expr(x.X), r.expr(x.Y)
		case *ast.ParenExpr:
			x.X = r.expr(x.X)
		case *ast.ReturnStmt:
			for i := range x.Results {
				x.Results[i] = r.expr(x.Results[i])
			}
		case *ast.ValueSpec:
			for i := range x.Values {
				x.Values[i] = r.expr(x.Values[i])
			}
		case *ast.IfStmt:
			x.Cond = r.expr(x.Cond)
		case *ast.SwitchStmt:
			if x.Tag != nil {
				x.Tag = r.expr(x.Tag)
			}
		case *ast.KeyValueExpr:
			x.Value = r.expr(x.Value)
		case *ast.CompositeLit:
			for i := range x.Elts {
				x.Elts[i] = r.expr(x.Elts[i])
			}
		case *ast.IndexExpr:
			x.Index = r.expr(x.Index)
		case *ast.SelectorExpr:
			x.X = r.expr(x.X)
		case *ast.UnaryExpr:
			if x.Op != token.ARROW {
				x.X = r.expr(x.X)
			}
		}
		return true
	})
	// any channel type left over is something we cannot model
	ast.Inspect(f, func(n ast.Node) bool {
		if ct, ok := n.(*ast.ChanType); ok {
			fail(ct.Pos(), "channel type outside make(chan int|string)")
		}
		if u, ok := n.(*ast.UnaryExpr); ok && u.Op == token.ARROW {
			fail(u.Pos(), "receive expression in a position the rewriter does not handle")
		}
		return true
	})
	// imports
	for _, imp := range f.Imports {
		if imp.Path.Value == `"sync"` {
			imp.Path.Value = `"owverif.local/verif/vrt/vsync"`
			imp.Name = ast.NewIdent("sync")
			r.counts["sync-import"]++
		}
	}
}

func main() {
	out := flag.String("out", "", "output directory")
	var adds, probes multi
	flag.Var(&adds, "add", "pkgdir=file.go: add a file to a package directory through the overlay")
	flag.Var(&probes, "probe", "Func:N  insert vrt.Probe(\"Func\", <Nth int parameter>, 0) at entry and a deferred Func.exit probe")
	renameMain := flag.String("rename-main", "", "rename func main() to this name")
	flag.Parse()
	if *out == "" {
		fmt.Fprintln(os.Stderr, "usage: rewrite -out DIR [-add pkgdir=file] files...")
		os.Exit(2)
	}
	os.MkdirAll(*out, 0755)
	overlay := map[string]string{}
	total := map[string]int{}
	for k, path := range flag.Args() {
		src, err := os.ReadFile(path)
		if err != nil {
			fmt.Fprintln(os.Stderr, "rewrite:", err)
			os.Exit(2)
		}
		f, err := parser.ParseFile(fset, path, src, parser.ParseComments)
		if err != nil {
			fmt.Fprintln(os.Stderr, "rewrite:", err)
			os.Exit(2)
		}
		r := &rewriter{counts: map[string]int{}}
		r.file(f)
		for _, d := range f.Decls {
			fd, ok := d.(*ast.FuncDecl)
			if !ok || fd.Body == nil {
				continue
			}
			if *renameMain != "" && fd.Name.Name == "main" && fd.Recv == nil {
				fd.Name.Name = *renameMain
			}
			for _, pr := range probes {
				parts := strings.SplitN(pr, ":", 2)
				if fd.Name.Name != parts[0] {
					continue
				}
				n := 0
				fmt.Sscanf(parts[1], "%d", &n)
				// the n-th parameter name
				var names []string
				for _, fld := range fd.Type.Params.List {
					for _, nm := range fld.Names {
						names = append(names, nm.Name)
					}
				}
				if n >= len(names) {
					fail(fd.Pos(), "probe %s: no parameter %d", pr, n)
				}
				arg := &ast.CallExpr{Fun: ast.NewIdent("int"), Args: []ast.Expr{ast.NewIdent(names[n])}}
				entry := &ast.ExprStmt{X: &ast.CallExpr{Fun: sel("vrt", "Probe"), Args: []ast.Expr{&ast.BasicLit{Kind: token.STRING, Value: fmt.Sprintf("%q", parts[0])}, arg, &ast.BasicLit{Kind: token.INT, Value: "0"}}}}
				exit := &ast.DeferStmt{Call: &ast.CallExpr{Fun: sel("vrt", "Probe"), Args: []ast.Expr{&ast.BasicLit{Kind: token.STRING, Value: fmt.Sprintf("%q", parts[0]+".exit")}, arg, &ast.BasicLit{Kind: token.INT, Value: "0"}}}}
				fd.Body.List = append([]ast.Stmt{entry, exit}, fd.Body.List...)
				r.usedVrt = true
				r.counts["probe"]++
			}
		}
		var buf bytes.Buffer
		// drop comments: positions of rewritten nodes would otherwise scramble them
		f.Comments = nil
		if err := printer.Fprint(&buf, fset, f); err != nil {
			fmt.Fprintln(os.Stderr, "rewrite:", err)
			os.Exit(2)
		}
		text := buf.String()
		if r.usedVrt {
			text = strings.Replace(text, "import (", "import (\n\tvrt \"owverif.local/verif/vrt\"", 1)
			if !strings.Contains(text, "vrt \"owverif.local/verif/vrt\"") {
				text = strings.Replace(text, "\nimport ", "\nimport vrt \"owverif.local/verif/vrt\"\nimport ", 1)
			}
		}
		if r.timeUsed {
			text += "\nvar _ = time.Now\n"
		}
		if r.osUsed {
			text += "\nvar _ = os.Getpid\n"
		}
		dst := filepath.Join(*out, fmt.Sprintf("%03d_%s", k, filepath.Base(path)))
		if err := os.WriteFile(dst, []byte(text), 0644); err != nil {
			fmt.Fprintln(os.Stderr, "rewrite:", err)
			os.Exit(2)
		}
		abs, _ := filepath.Abs(path)
		overlay[abs] = dst
		for k, v := range r.counts {
			total[k] += v
		}
	}
	for _, a := range adds {
		parts := strings.SplitN(a, "=", 2)
		src, _ := filepath.Abs(parts[1])
		overlay[filepath.Join(parts[0], filepath.Base(parts[1]))] = src
	}
	b, _ := json.MarshalIndent(map[string]interface{}{"Replace": overlay}, "", " ")
	os.WriteFile(filepath.Join(*out, "overlay.json"), b, 0644)
	sum, _ := json.Marshal(total)
	fmt.Printf("rewrite: %d files, %s\n", len(flag.Args()), sum)
}
