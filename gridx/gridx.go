// Package gridx: bounded-exhaustive enumeration for time-stepping kernels: for each Space, every
// parameter vector x every initial state x every prefix x every word of Letters^T is one case.
package gridx

import (
	"fmt"
	"os"
	"sort"
	"strings"

	_ "github.com/flowmatters/openwater-core/models"
	"github.com/flowmatters/openwater-core/sim"
	"owverif.local/verif/mrun"
	"owverif.local/verif/vf"
)

// Space is one (model, parameter list, alphabet, horizon) block of cases.
type Space struct {
	Name    string // label (defaults to Model)
	Model   string
	Params  [][]float64
	PNames  []string    // optional label per parameter vector
	Letters [][]float64 // letter -> one value per model input
	T       int
	MinT    int         // if >0 enumerate all words of length MinT..T (shortest first)
	Inits   [][]float64 // nil or empty => model-initialised states only; a nil entry = model-initialised
	Prefix  [][]int     // optional prefixes (letter indices) prepended to each word; nil => none
	Repeat  int         // >1: every word is repeated this many times (long periodic series)
	Oracle  func(c *Case, r *vf.Rec)
	// SecondPassEvery: every n-th case is also run twice on the same input arrays (0 = every case, <0 = never)
	SecondPassEvery int
	// derived
	nw   []int64 // words per length
	nTot int64
}

// Case is one decoded case.
type Case struct {
	S      *Space
	PIdx   int
	Params []float64
	Init   []float64 // nil = model-initialised
	IIdx   int
	Pre    []int
	Word   []int
	Seq    []int // Pre + Word
	T      int   // len(Seq)
	Inputs [][]float64
}

// LongClones returns copies of the space whose cases are single calls over LONG series: every one-letter word (or, for
// alphabets of at most maxTwo letters, every two-letter word) repeated so that the series has exactly the given length,
// the remainder being filled by a prefix of the first letters (lengths such as 1024 and 1027: a kernel that works in
// blocks, or switches path above a length, must still treat the whole series). The oracle is the space's own.
func (s *Space) LongClones(lengths []int, maxTwo int) []*Space {
	var out []*Space
	for _, n := range lengths {
		c := *s
		w := 1
		if len(s.Letters) <= maxTwo {
			w = 2
		}
		c.T, c.MinT, c.Repeat = w, w, n/w
		var pre []int
		for k := 0; k < n-(n/w)*w; k++ {
			pre = append(pre, k%len(s.Letters))
		}
		c.Prefix = [][]int{pre}
		if c.Name == "" {
			c.Name = c.Model
		}
		c.Name = fmt.Sprintf("%s/long(n=%d)", c.Name, n)
		c.SecondPassEvery = 0 // every long case twice on the same arrays (a buffer recycled between calls must come back clean)
		c.nw, c.nTot = nil, 0
		out = append(out, &c)
	}
	return out
}

func (s *Space) prep() {
	if s.Name == "" {
		s.Name = s.Model
	}
	if len(s.Inits) == 0 {
		s.Inits = [][]float64{nil}
	}
	if len(s.Prefix) == 0 {
		s.Prefix = [][]int{nil}
	}
	lo := s.T
	if s.MinT > 0 {
		lo = s.MinT
	}
	s.nw = nil
	tot := int64(0)
	for L := lo; L <= s.T; L++ {
		n := vf.Pow(len(s.Letters), L)
		s.nw = append(s.nw, n)
		tot += n
	}
	s.nTot = tot * int64(len(s.Params)) * int64(len(s.Inits)) * int64(len(s.Prefix))
}

func (s *Space) decode(i int64) *Case {
	words := int64(0)
	for _, n := range s.nw {
		words += n
	}
	w := i % words
	i /= words
	pre := int(i % int64(len(s.Prefix)))
	i /= int64(len(s.Prefix))
	ii := int(i % int64(len(s.Inits)))
	i /= int64(len(s.Inits))
	p := int(i)
	lo := s.T
	if s.MinT > 0 {
		lo = s.MinT
	}
	L := lo
	for k, n := range s.nw {
		if w < n {
			L = lo + k
			break
		}
		w -= n
	}
	c := &Case{S: s, PIdx: p, Params: s.Params[p], Init: s.Inits[ii], IIdx: ii, Pre: s.Prefix[pre]}
	c.Word = vf.Word(w, len(s.Letters), L)
	c.Seq = append([]int{}, c.Pre...)
	for k := 0; k < s.Repeat || k == 0; k++ {
		c.Seq = append(c.Seq, c.Word...)
	}
	c.T = len(c.Seq)
	c.Inputs = s.InputsFor(c.Seq)
	return c
}

// InputsFor turns a letter sequence into [input][t].
func (s *Space) InputsFor(seq []int) [][]float64 {
	nin := 0
	if len(s.Letters) > 0 {
		nin = len(s.Letters[0])
	}
	in := make([][]float64, nin)
	for k := range in {
		in[k] = make([]float64, len(seq))
		for t, l := range seq {
			in[k][t] = s.Letters[l][k]
		}
	}
	return in
}

// Run runs the whole case on a fresh model object.
func (c *Case) Run() mrun.Result {
	return mrun.RunCell(c.S.Model, c.Params, c.Inputs, c.T, c.Init)
}

// RunSeg runs inputs[from:to) from the given states on a fresh model object.
func (c *Case) RunSeg(from, to int, init []float64) mrun.Result {
	in := make([][]float64, len(c.Inputs))
	for k := range in {
		in[k] = c.Inputs[k][from:to]
	}
	return mrun.RunCell(c.S.Model, c.Params, in, to-from, init)
}

func (c *Case) PLabel() string {
	if c.S.PNames != nil && c.PIdx < len(c.S.PNames) {
		return c.S.PNames[c.PIdx]
	}
	return fmt.Sprintf("p%d", c.PIdx)
}

// Enum is a concatenation of spaces.
type Enum struct {
	ID     string
	Spaces []*Space
	off    []int64
}

func NewEnum(id string, spaces []*Space) *Enum {
	if only := os.Getenv("VERIF_ONLY"); only != "" { // development aid: restrict to spaces whose name contains the string
		var keep []*Space
		for _, s := range spaces {
			n := s.Name
			if n == "" {
				n = s.Model
			}
			if strings.Contains(n, only) {
				keep = append(keep, s)
			}
		}
		spaces = keep
	}
	e := &Enum{ID: id, Spaces: spaces}
	o := int64(0)
	for _, s := range spaces {
		s.prep()
		e.off = append(e.off, o)
		o += s.nTot
	}
	e.off = append(e.off, o)
	return e
}

func (e *Enum) N() int64 { return e.off[len(e.off)-1] }

func (e *Enum) locate(i int64) (*Space, int64) {
	k := sort.Search(len(e.Spaces), func(k int) bool { return e.off[k+1] > i })
	return e.Spaces[k], i - e.off[k]
}

func (e *Enum) Case(i int64) *Case {
	s, j := e.locate(i)
	return s.decode(j)
}

func (e *Enum) Run(i int64, r *vf.Rec) {
	c := e.Case(i)
	r.Count("cases/"+c.S.Name, 1)
	c.S.Oracle(c, r)
	stride := int64(c.S.SecondPassEvery)
	if stride == 0 {
		stride = 1
	}
	if stride > 0 && i%stride == 0 && len(c.Inputs) > 0 && (c.Init == nil || len(c.Init) > 0) { // an empty non-nil Init is an oracle's own marker

		secondPass(e.ID, c, r)
	}
}

// secondPass: a model must treat its input series as read-only, so running it twice on the SAME input arrays
// (fresh model object and states each time) must leave the inputs bit-identical and give bit-identical results.
func secondPass(id string, c *Case, r *vf.Rec) {
	in := mrun.Inputs3([][][]float64{c.Inputs}, len(c.Inputs), c.T)
	a := mrun.RunOnInputs(mrun.New(c.S.Model, mrun.Col(c.Params)), in, c.Init)
	for k := range c.Inputs {
		for t := 0; t < c.T; t++ {
			if !mrun.SameBits(in.Get3(0, k, t), c.Inputs[k][t]) {
				r.Failf(id+"/"+c.S.Model+"/run-modifies-its-input-series", map[string]interface{}{"input": k, "t": t, "was": c.Inputs[k][t], "now": in.Get3(0, k, t)},
					"%s: Run changed input %d at t=%d from %v to %v", c.S.Model, k, t, c.Inputs[k][t], in.Get3(0, k, t))
				return
			}
		}
	}
	b := mrun.RunOnInputs(mrun.New(c.S.Model, mrun.Col(c.Params)), in, c.Init)
	r.Count("second_passes_on_the_same_input_arrays", 1)
	for o := range a.Out {
		for t := range a.Out[o] {
			if !mrun.SameBits(a.Out[o][t], b.Out[o][t]) {
				r.Failf(id+"/"+c.S.Model+"/second-run-on-the-same-inputs-differs", map[string]interface{}{"output": o, "t": t, "first": a.Out[o][t], "second": b.Out[o][t]},
					"%s: a second run on the same input arrays gives output %d t=%d = %v instead of %v", c.S.Model, o, t, b.Out[o][t], a.Out[o][t])
				return
			}
		}
	}
}

func (e *Enum) Describe(i int64) interface{} {
	c := e.Case(i)
	desc := sim.Catalog[c.S.Model]().Description()
	pm := map[string]float64{}
	k := 0
	for _, p := range desc.Parameters {
		if len(p.Dimensions) == 0 && k < len(c.Params) {
			pm[p.Name] = c.Params[k]
			k++
		} else {
			break
		}
	}
	d := map[string]interface{}{"space": c.S.Name, "model": c.S.Model, "param_vector": c.PLabel(), "params": c.Params, "word": c.Seq, "T": c.T}
	if len(pm) == len(c.Params) {
		d["params_named"] = pm
	}
	in := map[string][]float64{}
	for k, name := range desc.Inputs {
		if k < len(c.Inputs) {
			in[name] = c.Inputs[k]
		}
	}
	d["inputs"] = in
	if c.Init != nil {
		d["init_states"] = c.Init
	}
	return d
}

func (e *Enum) CrashSig(i int64, tail string) (string, string) {
	c := e.Case(i)
	return fmt.Sprintf("%s/%s/crash", e.ID, c.S.Name), fmt.Sprintf("%s: Run crashed the process (params %s)", c.S.Model, c.PLabel())
}

// ---------------------------------------------------------------------------------------------
// parameter helpers

// Defaults returns the model's default parameter vector (scalar parameters only).
func Defaults(model string) ([]float64, []string) {
	desc := sim.Catalog[model]().Description()
	v := make([]float64, len(desc.Parameters))
	n := make([]string, len(desc.Parameters))
	for i, p := range desc.Parameters {
		v[i] = p.Default
		n[i] = p.Name
	}
	return v, n
}

// PV builds a parameter vector from defaults overridden by set.
func PV(model string, set map[string]float64) []float64 {
	v, names := Defaults(model)
	for k, x := range set {
		i := mrun.Index(names, k)
		if i < 0 {
			panic("gridx.PV: model " + model + " has no parameter " + k)
		}
		v[i] = x
	}
	return v
}

// Axis is one grid axis.
type Axis struct {
	Name string
	Vals []float64
}

// Grid is the full factorial over axes on top of base.
func Grid(model string, base map[string]float64, axes []Axis) ([][]float64, []string) {
	radices := make([]int, len(axes))
	for i, a := range axes {
		radices[i] = len(a.Vals)
	}
	n := vf.RadixN(radices)
	out := make([][]float64, 0, n)
	labels := make([]string, 0, n)
	for i := int64(0); i < n; i++ {
		d := vf.Radix(i, radices)
		set := map[string]float64{}
		for k, v := range base {
			set[k] = v
		}
		lab := ""
		for k, a := range axes {
			set[a.Name] = a.Vals[d[k]]
			lab += fmt.Sprintf("%s=%g ", a.Name, a.Vals[d[k]])
		}
		out = append(out, PV(model, set))
		labels = append(labels, lab)
	}
	return out, labels
}

// OneAtATime varies each axis alone around base (plus base itself).
func OneAtATime(model string, base map[string]float64, axes []Axis) ([][]float64, []string) {
	out := [][]float64{PV(model, base)}
	labels := []string{"base"}
	for _, a := range axes {
		for _, v := range a.Vals {
			set := map[string]float64{}
			for k, x := range base {
				set[k] = x
			}
			set[a.Name] = v
			out = append(out, PV(model, set))
			labels = append(labels, fmt.Sprintf("%s=%g", a.Name, v))
		}
	}
	return out, labels
}

// LettersProduct builds the alphabet as the product of per-input value lists.
func LettersProduct(vals ...[]float64) [][]float64 {
	radices := make([]int, len(vals))
	for i, v := range vals {
		radices[i] = len(v)
	}
	n := vf.RadixN(radices)
	out := make([][]float64, 0, n)
	for i := int64(0); i < n; i++ {
		d := vf.Radix(i, radices)
		l := make([]float64, len(vals))
		for k := range vals {
			l[k] = vals[k][d[k]]
		}
		out = append(out, l)
	}
	return out
}

// Rep returns n copies of letter l (for prefixes).
func Rep(l, n int) []int {
	out := make([]int, n)
	for i := range out {
		out[i] = l
	}
	return out
}
