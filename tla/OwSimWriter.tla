---------------------------- MODULE OwSimWriter ----------------------------
(* The writer hand-off of cmd/ow-sim (run_simulation in main.go), G generations.

   main:      for g in 0..G-1:  run(g) ; spawn writer W_g ; apply the links of generation g
              then the final wait: receive a token; the last generation's token ends the run,
              any other token is put back, main sleeps and tries again.
   writer g:  (g > 0) repeat { receive a token p ; purge generation p ;
                               if p = g-1 then leave the loop else put p back and sleep }
              write generation g ; send token g.
   The channel writingDone is unbuffered: a send completes together with a receive (any parked sender may
   pair with any parked receiver - Go's FIFO queues are over-approximated).

   Every action stamps lastEvent, which makes the dumped state graph's edges recognisable for the
   conformance check against traces of the real code (events "run", "wb", "we", "purge" are observable
   through probes; "tau" steps are not). *)
EXTENDS Naturals, FiniteSets

CONSTANT G
Gens == 0..(G-1)
NoTok == G   \* "no token"

VARIABLES mpc, mg, mtok, wpc, wtok, written, purged, linksDone, lastEvent

vars == <<mpc, mg, mtok, wpc, wtok, written, purged, linksDone, lastEvent>>

Init ==
  /\ mpc = "run" /\ mg = 0 /\ mtok = NoTok
  /\ wpc = [g \in Gens |-> "absent"]
  /\ wtok = [g \in Gens |-> NoTok]
  /\ written = {} /\ purged = {} /\ linksDone = {}
  /\ lastEvent = <<"init", 0>>

(* ---- main ---- *)
MainRun ==
  /\ mpc = "run"
  /\ mpc' = "spawn"
  /\ linksDone' = IF mg > 0 THEN linksDone \cup {mg - 1} ELSE linksDone   \* entering run(g) = links of g-1 applied
  /\ lastEvent' = <<"run", mg>>
  /\ UNCHANGED <<mg, mtok, wpc, wtok, written, purged>>

MainSpawn ==
  /\ mpc = "spawn"
  /\ wpc' = [wpc EXCEPT ![mg] = IF mg = 0 THEN "write" ELSE "recv"]
  /\ mpc' = "links"
  /\ lastEvent' = <<"tau", 0>>
  /\ UNCHANGED <<mg, mtok, wtok, written, purged, linksDone>>

MainLinks ==
  /\ mpc = "links"
  /\ IF mg = G - 1
        THEN /\ mpc' = "fwrecv" /\ mg' = mg /\ linksDone' = linksDone \cup {mg}
        ELSE /\ mpc' = "run" /\ mg' = mg + 1 /\ linksDone' = linksDone
  /\ lastEvent' = <<"tau", 0>>
  /\ UNCHANGED <<mtok, wpc, wtok, written, purged>>

MainCheck ==   \* after receiving a token in the final wait
  /\ mpc = "fwcheck"
  /\ IF mtok = G - 1 THEN mpc' = "done" ELSE mpc' = "fwput"
  /\ lastEvent' = <<"tau", 0>>
  /\ UNCHANGED <<mg, mtok, wpc, wtok, written, purged, linksDone>>

MainSleep ==
  /\ mpc = "fwsleep"
  /\ mpc' = "fwrecv"
  /\ lastEvent' = <<"tau", 0>>
  /\ UNCHANGED <<mg, mtok, wpc, wtok, written, purged, linksDone>>

(* ---- writers ---- *)
WPurge(g) ==
  /\ wpc[g] = "purge"
  /\ purged' = purged \cup {wtok[g]}
  /\ wpc' = [wpc EXCEPT ![g] = IF wtok[g] = g - 1 THEN "write" ELSE "put"]
  /\ lastEvent' = <<"purge", wtok[g]>>
  /\ UNCHANGED <<mpc, mg, mtok, wtok, written, linksDone>>

WSleep(g) ==
  /\ wpc[g] = "sleep"
  /\ wpc' = [wpc EXCEPT ![g] = "recv"]
  /\ lastEvent' = <<"tau", 0>>
  /\ UNCHANGED <<mpc, mg, mtok, wtok, written, purged, linksDone>>

WWriteBegin(g) ==
  /\ wpc[g] = "write"
  /\ wpc' = [wpc EXCEPT ![g] = "writing"]
  /\ lastEvent' = <<"wb", g>>
  /\ UNCHANGED <<mpc, mg, mtok, wtok, written, purged, linksDone>>

WWriteEnd(g) ==
  /\ wpc[g] = "writing"
  /\ written' = written \cup {g}
  /\ wpc' = [wpc EXCEPT ![g] = "send"]
  /\ wtok' = [wtok EXCEPT ![g] = g]
  /\ lastEvent' = <<"we", g>>
  /\ UNCHANGED <<mpc, mg, mtok, purged, linksDone>>

(* ---- rendezvous on the unbuffered channel ---- *)
Sending(g) == wpc[g] \in {"send", "put"}
AfterSend(g) == IF wpc[g] = "send" THEN "done" ELSE "sleep"

WtoW(s, r) ==    \* writer s hands its token to writer r
  /\ s # r /\ Sending(s) /\ wpc[r] = "recv"
  /\ wtok' = [wtok EXCEPT ![r] = wtok[s], ![s] = NoTok]
  /\ wpc' = [wpc EXCEPT ![r] = "purge", ![s] = AfterSend(s)]
  /\ lastEvent' = <<"tau", 0>>
  /\ UNCHANGED <<mpc, mg, mtok, written, purged, linksDone>>

WtoMain(s) ==
  /\ Sending(s) /\ mpc = "fwrecv"
  /\ mtok' = wtok[s]
  /\ wtok' = [wtok EXCEPT ![s] = NoTok]
  /\ wpc' = [wpc EXCEPT ![s] = AfterSend(s)]
  /\ mpc' = "fwcheck"
  /\ lastEvent' = <<"tau", 0>>
  /\ UNCHANGED <<mg, written, purged, linksDone>>

MainToW(r) ==
  /\ mpc = "fwput" /\ wpc[r] = "recv"
  /\ wtok' = [wtok EXCEPT ![r] = mtok]
  /\ mtok' = NoTok
  /\ wpc' = [wpc EXCEPT ![r] = "purge"]
  /\ mpc' = "fwsleep"
  /\ lastEvent' = <<"tau", 0>>
  /\ UNCHANGED <<mg, written, purged, linksDone>>

Done == mpc = "done" /\ \A g \in Gens : wpc[g] = "done"
Stutter == Done /\ UNCHANGED vars

Next ==
  \/ MainRun \/ MainSpawn \/ MainLinks \/ MainCheck \/ MainSleep
  \/ \E g \in Gens : WPurge(g) \/ WSleep(g) \/ WWriteBegin(g) \/ WWriteEnd(g)
  \/ \E s \in Gens, r \in Gens : WtoW(s, r)
  \/ \E s \in Gens : WtoMain(s)
  \/ \E r \in Gens : MainToW(r)
  \/ Stutter

Spec == Init /\ [][Next]_vars

(* ---- the properties ---- *)
M1 == purged \subseteq (written \cap linksDone)          \* nothing is discarded before it is written and its links applied
M2 == \A g \in Gens : wpc[g] \in {"write", "writing"} => g \notin purged   \* a generation is never used after its purge
M3 == \A g \in Gens : (g \in written) => wpc[g] \in {"send", "put", "sleep", "done"} \/ wpc[g] = "done"
M4 == (mpc = "done") => (written = Gens)                 \* everything is written when main returns
TypeOK == mg \in Gens /\ mtok \in 0..G
=============================================================================
