CONSTANT G = 3
INIT Init
NEXT Next
INVARIANT M1
INVARIANT M2
INVARIANT M4
INVARIANT TypeOK
CHECK_DEADLOCK TRUE
