// Package tables holds per-model parameter vectors and input alphabets shared by several checks
// (C04, C06, C12, C14). Every entry is in the model's documented / physical range.
package tables

import (
	"fmt"

	"owverif.local/verif/gridx"
)

type Table struct {
	Model   string
	Params  [][]float64
	PNames  []string
	Letters [][]float64
	Cost    int // 1 = cheap kernel, 2 = solver, 3 = adaptive sub-stepping
}

func pvs(model string, sets ...map[string]float64) ([][]float64, []string) {
	var out [][]float64
	var names []string
	for _, s := range sets {
		out = append(out, gridx.PV(model, s))
		names = append(names, fmt.Sprint(s))
	}
	return out, names
}

type M = map[string]float64

// StorageParams builds the flat parameter vector of the Storage model.
func StorageParams(dt float64, levels, volumes, areas, minRel, maxRel []float64) []float64 {
	n := len(levels)
	v := []float64{dt, float64(n)}
	for _, a := range [][]float64{levels, volumes, areas, minRel, maxRel} {
		v = append(v, a...)
	}
	return v
}

var RainPet = [][]float64{{0, 0}, {0, 5}, {2, 5}, {30, 1}, {150, 0}}

// Stateful returns the tables of all models that carry state between calls.
func Stateful() []Table {
	var ts []Table
	add := func(model string, letters [][]float64, cost int, sets ...map[string]float64) {
		p, n := pvs(model, sets...)
		ts = append(ts, Table{Model: model, Params: p, PNames: n, Letters: letters, Cost: cost})
	}
	add("GR4J", RainPet, 1,
		M{"X1": 350, "X2": 0, "X3": 90, "X4": 0.5}, M{"X1": 100, "X2": -3, "X3": 20, "X4": 1}, M{"X1": 350, "X2": 2, "X3": 90, "X4": 1.4},
		M{"X1": 1200, "X2": 0, "X3": 300, "X4": 2.5}, M{"X1": 350, "X2": -1, "X3": 90, "X4": 4}, M{"X1": 350, "X2": 0, "X3": 90, "X4": 0.7})
	add("Sacramento", RainPet, 1,
		M{}, M{"uh1": 1, "uh2": 0, "uh3": 0, "uh4": 0, "uh5": 0}, M{"adimp": 0.2, "pctim": 0.1, "sarva": 0.1, "side": 0.3, "ssout": 0.2},
		M{"uztwm": 5, "uzfwm": 5, "lztwm": 5, "lzfsm": 5, "lzfpm": 5, "uh1": 1, "uh2": 0, "uh3": 0, "uh4": 0, "uh5": 0})
	sim := M{"baseflowCoefficient": 0.3, "imperviousThreshold": 1, "infiltrationCoefficient": 200, "infiltrationShape": 3, "interflowCoefficient": 0.1,
		"perviousFraction": 0.9, "rainfallInterceptionStoreCapacity": 1.5, "rechargeCoefficient": 0.2, "soilMoistureStoreCapacity": 120}
	sim2 := M{"baseflowCoefficient": 0.05, "imperviousThreshold": 0, "infiltrationCoefficient": 20, "infiltrationShape": 8, "interflowCoefficient": 0.6,
		"perviousFraction": 1, "rainfallInterceptionStoreCapacity": 0, "rechargeCoefficient": 0.8, "soilMoistureStoreCapacity": 20}
	add("Simhyd", RainPet, 1, sim, sim2)
	sur := M{"bfac": 0.1, "coeff": 150, "dseep": 0.01, "fcFrac": 0.5, "fimp": 0.1, "rfac": 0.2, "smax": 150, "sq": 2, "thres": 1}
	sur2 := M{"bfac": 0.6, "coeff": 20, "dseep": 0.2, "fcFrac": 0.1, "fimp": 0, "rfac": 0.9, "smax": 25, "sq": 6, "thres": 0}
	add("Surm", RainPet, 1, sur, sur2)

	// last letter: no flow and enough evaporation to take a small reach below its dead storage down to exactly empty
	srL := [][]float64{{0, 0, 0, 0}, {0.5, 0, 0, 0}, {20, 0, 0, 0}, {500, 3, 0, 0}, {20, 0, 10, 0}, {0.5, 0, 0, 8}, {0, 0, 0, 600}, {0, 0, 10, 0}} // ... and rain on the reach surface without any flow
	add("StorageRouting", srL, 2,
		M{"RoutingConstant": 21600, "RoutingPower": 1, "DeltaT": 86400}, M{"RoutingConstant": 86400, "RoutingPower": 0.8, "DeltaT": 86400, "area": 1e4},
		M{"RoutingConstant": 172800, "RoutingPower": 0.6, "DeltaT": 86400, "deadStorage": 5e4}, M{"RoutingConstant": 86400, "RoutingPower": 0.8, "DeltaT": 86400, "InflowBias": 0.2},
		M{"RoutingConstant": 50000, "RoutingPower": 1, "DeltaT": 86400, "area": 1e4, "deadStorage": 5000})
	muL := gridx.LettersProduct([]float64{0, 10, 50}, []float64{0, 4})
	add("Muskingum", muL, 1, M{"K": 86400, "X": 0.2, "DeltaT": 86400}, M{"K": 43200, "X": 0, "DeltaT": 86400}, M{"K": 172800, "X": 0.25, "DeltaT": 86400})
	add("Lag", [][]float64{{0}, {1}, {7}, {3.5}}, 1, M{"timeLag": 0}, M{"timeLag": 1}, M{"timeLag": 2}, M{"timeLag": 3}, M{"timeLag": 5})

	// constituent transport: (loads..., outflow, storage); the last letters of each alphabet are a draining step (the
	// reach / storage ends the step empty while water (and mass) still leaves during the step) and a trickle (flow rate
	// and stored volume each below the 0.01 "no water" threshold, while the water passing in the step is far above it)
	lcL := [][]float64{{0, 0, 0, 0}, {0, 0, 5, 1e3}, {2, 0, 5, 1e3}, {0, 1, 5, 1e3}, {40, 3, 120, 1e6}, {2, 0, 0, 5e-3}, {2, 1, 0, 1e3}, {2, 1, 5, 0}, {2, 1, 0.005, 0.001}}
	add("LumpedConstituentRouting", lcL, 1, M{"X": 0, "pointInput": 0, "DeltaT": 86400}, M{"X": 0.2, "pointInput": 0.5, "DeltaT": 3600})
	cdL := [][]float64{{0, 0, 0, 0, 0}, {0, 0, 5, 5, 1e3}, {2, 0, 5, 5, 1e3}, {0, 1, 5, 5, 1e3}, {40, 3, 100, 120, 1e6}, {2, 0, 0, 0, 5e-3}, {2, 1, 1, 0, 1e3}, {2, 1, 5, 5, 0}, {2, 1, 0.005, 0.005, 0.001}}
	add("ConstituentDecay", cdL, 1, M{"halfLife": 0, "DeltaT": 86400}, M{"halfLife": 86400 * 3, "DeltaT": 86400}, M{"halfLife": 3600, "DeltaT": 3600})
	fine := M{"bankFullFlow": 50, "fineSedSettVelocityFlood": 1e-5, "floodPlainArea": 1e6, "linkWidth": 20, "linkLength": 5000, "linkSlope": 0.001, "bankHeight": 2,
		"propBankHeightForFineDep": 0.1, "sedBulkDensity": 1.5, "manningsN": 0.04, "fineSedSettVelocity": 1e-4, "fineSedReMobVelocity": 1e-3, "durationInSeconds": 86400}
	fine0 := cp(fine, M{"bankFullFlow": 0})
	fine2 := cp(fine, M{"fineSedSettVelocity": 1e-2, "fineSedReMobVelocity": 0.5, "propBankHeightForFineDep": 0.001})
	ifL := [][]float64{{0, 0, 0, 0, 0}, {2, 0.5, 0.1, 1e4, 5}, {500, 0, 0, 1e4, 0.5}, {50, 2, 1, 1e6, 120}, {0, 0, 0, 1e4, 30}, {2, 0, 0, 0, 0}, {300, 0, 0, 1e6, 120}, {2, 0.5, 0.1, 0, 5}, {50, 2, 1, 1e6, 50}, {2, 0.5, 0.1, 0.001, 0.005}} // the last but one letter flows exactly at bank-full (50)
	fine3 := cp(fine, M{"fineSedSettVelocityFlood": 1e-3, "linkSlope": 1e-4, "fineSedSettVelocity": 1e-2})
	fine4 := cp(fine3, M{"durationInSeconds": 43200}) // a timestep other than a day (floodplain deposition is a daily rate)
	fine5 := cp(fine, M{"floodPlainArea": 0})         // no floodplain
	add("InstreamFineSediment", ifL, 1, fine, fine0, fine2, fine3, fine4, fine5)
	add("InstreamCoarseSediment", [][]float64{{0, 0, 0}, {2, 0.5, 0.1}, {50, 0, 3}}, 1, M{"durationInSeconds": 86400}, M{"durationInSeconds": 3600})
	ipL := [][]float64{{0, 0, 0, 0, 0, 0, 0, 0}, {2, 0.5, 1e4, 5, 0.2, 1, 0.1, 0.2}, {2, 0.5, 1e4, 5, 0, 0, 0, -0.1}, {40, 3, 1e6, 120, 1, 1, 0.6, 0.5}, {2, 1, 0, 0, 0, 1, 0, 0}, {0, 0, 1e4, 5, 0, 0, 0, -0.3}, {2, 0.5, 0, 5, 0.2, 1, 0.1, 0.2}, {2, 0.5, 0.001, 0.005, 0.2, 1, 0.1, 0.2}}
	add("InstreamParticulateNutrient", ipL, 1, M{"particulateNutrientConcentration": 0.002, "soilPercentFine": 35, "durationInSeconds": 86400}, M{"particulateNutrientConcentration": 0, "soilPercentFine": 100, "durationInSeconds": 3600})
	idL := [][]float64{{0, 0, 0, 0, 0}, {0, 0, 1e4, 5, 0}, {2, 0.5, 1e4, 5, 0}, {40, 3, 1e6, 120, 0.1}, {2, 1, 2e5, 0.05, 0}, {2, 1, 0, 0, 0}, {2, 0.5, 0, 5, 0}, {2, 0.5, 0.001, 0.005, 0}}
	dn := M{"doDecay": 1, "pointSourceLoad": 1000, "linkHeight": 3, "linkWidth": 20, "linkLength": 5000, "uptakeVelocity": 0.1, "durationInSeconds": 86400}
	add("InstreamDissolvedNutrientDecay", idL, 1, dn, cp(dn, M{"doDecay": 0}), cp(dn, M{"pointSourceLoad": 0, "uptakeVelocity": 0}))

	// reservoirs
	stp := StorageParams(86400, []float64{0, 5, 10}, []float64{0, 1e6, 3e6}, []float64{0, 2e5, 4e5}, []float64{0, 0, 50}, []float64{0, 20, 80})
	stp2 := StorageParams(3600, []float64{0, 10}, []float64{0, 2e6}, []float64{0, 1e5}, []float64{0, 0}, []float64{0, 5})
	stL := [][]float64{{0, 0, 0, 0, 0, 0}, {20, 0, 200, 0, 0, 0}, {0, 8, 2, 50, 0, 0}, {0, 0, 2, 1, 0, 0}}
	ts = append(ts, Table{Model: "Storage", Params: [][]float64{stp, stp2}, PNames: []string{"n=3 dt=86400", "n=2 dt=3600"}, Letters: stL, Cost: 3})
	rsL := [][]float64{{0, 0, 0, 1e5}, {2, 5, 5, 1e5}, {40, 120, 100, 3e6}, {2, 0.5, 0, 1e5}, {0, 5, 20, 5e4}, {2, 0.5, 0, 0}, {2, 0, 5, 0}, {2, 0.005, 0.005, 0.001}}
	add("StorageParticulateTrapping", rsL, 1, M{"DeltaT": 86400, "reservoirCapacity": 3e6, "reservoirLength": 4000, "subtractor": 112, "multiplier": 800, "lengthDischargeFactor": 3.28, "lengthDischargePower": -0.2},
		M{"DeltaT": 86400, "reservoirCapacity": 3e6, "reservoirLength": 0, "subtractor": 112, "multiplier": 800, "lengthDischargeFactor": 3.28, "lengthDischargePower": -0.2})
	add("StorageTrapAll", rsL, 1, M{})
	add("StorageDissolvedDecay", rsL, 1, M{"DeltaT": 86400, "doStorageDecay": 0, "bankFullFlow": 50, "medianFloodResidenceTime": 2},
		M{"DeltaT": 86400, "doStorageDecay": 1, "bankFullFlow": 50, "medianFloodResidenceTime": 2}, M{"DeltaT": 86400, "doStorageDecay": 1, "bankFullFlow": 50, "medianFloodResidenceTime": 0})
	return ts
}

func cp(base M, over M) M {
	out := M{}
	for k, v := range base {
		out[k] = v
	}
	for k, v := range over {
		out[k] = v
	}
	return out
}

// Get returns the table of a model.
func Get(model string) Table {
	for _, t := range Stateful() {
		if t.Model == model {
			return t
		}
	}
	panic("tables: no table for " + model)
}

// Dimensioned describes the flat layout of a model with table-valued parameters:
// nScalars scalar rows (the last of which is the table length), then nTables tables.
type Dimensioned struct{ NScalars, NTables int }

var Dims = map[string]Dimensioned{"Storage": {2, 5}, "RatingCurvePartition": {1, 2}}

// Repack re-lays a flat parameter vector whose tables have length n into the layout for table length maxN (zero padded).
func Repack(model string, flat []float64, maxN int) []float64 {
	d, ok := Dims[model]
	if !ok {
		return flat
	}
	n := int(flat[d.NScalars-1])
	out := append([]float64{}, flat[:d.NScalars]...)
	for k := 0; k < d.NTables; k++ {
		tab := flat[d.NScalars+k*n : d.NScalars+(k+1)*n]
		out = append(out, tab...)
		for j := n; j < maxN; j++ {
			out = append(out, 0)
		}
	}
	return out
}

// TableLen returns the table length of a flat vector of a dimensioned model (0 otherwise).
func TableLen(model string, flat []float64) int {
	if d, ok := Dims[model]; ok {
		return int(flat[d.NScalars-1])
	}
	return 0
}

// Stateless returns tables for the models without carried state.
func Stateless() []Table {
	var ts []Table
	add := func(model string, letters [][]float64, sets ...map[string]float64) {
		p, n := pvs(model, sets...)
		ts = append(ts, Table{Model: model, Params: p, PNames: n, Letters: letters, Cost: 1})
	}
	one := [][]float64{{0}, {0.3}, {7}, {-3}}
	two := gridx.LettersProduct([]float64{0, 0.3, 7}, []float64{0, 0.35, 5})
	add("ApplyScalingFactor", one, M{"scale": 0.35}, M{"scale": 2.5}, M{"scale": 0})
	add("DeliveryRatio", one, M{"fraction": 0.35}, M{"fraction": 1}, M{"fraction": 0})
	add("DepthToRate", [][]float64{{0}, {0.1}, {12}}, M{"DeltaT": 86400, "area": 1e4}, M{"DeltaT": 3600, "area": 2.5e6}, M{"DeltaT": 86400, "area": 0})
	add("FixedPartition", one, M{"fraction": 0.2}, M{"fraction": 0.35}, M{"fraction": 1})
	add("VariablePartition", two, M{})
	add("PartitionDemand", two, M{})
	add("Input", one, M{})
	add("Sum", two, M{})
	add("Gate", gridx.LettersProduct([]float64{-1, 0, 1}, []float64{0.3, 7}), M{})
	add("BaseflowFilter", one, M{})
	add("ComputeProportion", two, M{"resultOnZeroDenominator": 86400}, M{"resultOnZeroDenominator": 0})
	add("DateGenerator", [][]float64{{0}}, M{"startDate": 27, "startMonth": 2, "startYear": 2000}, M{"startDate": 30, "startMonth": 12, "startYear": 1999}, M{"startDate": 1, "startMonth": 1, "startYear": 2100},
		M{"startDate": 27, "startMonth": 2, "startYear": 2100}, M{"startDate": 27, "startMonth": 2, "startYear": 2001}) // the end of February in a leap year, a century year and an ordinary year
	add("ClimateVariables", gridx.LettersProduct([]float64{-5, 12, 35}, []float64{20, 80, 100}), M{"elevation": 0}, M{"elevation": 1500}, M{"elevation": 6000})
	add("RunoffCoefficient", [][]float64{{0}, {2}, {30}}, M{"coeff": 0.35}, M{"coeff": 0.05}, M{"coeff": 1})
	add("EmcDwc", two, M{"EMC": 250, "DWC": 40}, M{"EMC": 0.1, "DWC": 0}, M{"EMC": 0, "DWC": 0})
	add("FixedConcentration", [][]float64{{0}, {0.3}, {7}}, M{"concentration": 250}, M{"concentration": 0.1}, M{"concentration": 0})
	add("PassLoadIfFlow", gridx.LettersProduct([]float64{0, 1e-9, 12}, []float64{0.3, 7}), M{"scalingFactor": 0.35}, M{"scalingFactor": 2}, M{"scalingFactor": 0})
	add("SednetDissolvedNutrientGeneration", two, M{"dissConst_EMC": 250, "dissConst_DWC": 40}, M{"dissConst_EMC": 0.1, "dissConst_DWC": 0})
	pn := M{"area": 1e6, "nutSurfSoilConc": 0.002, "hillDeliveryRatio": 35, "Nutrient_Enrichment_Ratio": 1.5, "nutSubSoilConc": 0.001, "Nutrient_Enrichment_Ratio_Gully": 1.2, "gullyDeliveryRatio": 20, "nutrientDWC": 0.4, "Do_P_CREAMS_Enrichment": 1}
	add("SednetParticulateNutrientGeneration", [][]float64{{0, 0, 0, 0, 0}, {120, 30, 0, 0, 2.5}, {0, 0, 120, 45, 0}, {120, 30, 120, 45, 2.5}}, pn, cp(pn, M{"hillDeliveryRatio": 100, "Do_P_CREAMS_Enrichment": 0}))
	be := M{"riparianVegPercent": 40, "maxRiparianVegEffectiveness": 95, "soilErodibility": 80, "bankErosionCoeff": 0.0001, "linkSlope": 0.002,
		"bankFullFlow": 50, "bankMgtFactor": 1, "sedBulkDensity": 1.5, "bankHeight": 2, "linkLength": 5000, "dailyFlowPowerFactor": 1.4, "longTermAvDailyFlow": 2e6, "soilPercentFine": 35, "durationInSeconds": 86400}
	add("BankErosion", gridx.LettersProduct([]float64{0, 0.5, 30}, []float64{0, 1e5}), be, cp(be, M{"soilPercentFine": 100, "durationInSeconds": 3600}))
	us := M{"S": 400, "P": 900, "RainThreshold": 12.7, "Alpha": 0.03, "Beta": 1.5, "Eta": 0.3, "A1": 1, "A2": 1, "A3": 1, "DWC": 5, "avK": 0.03, "avLS": 2, "avFines": 40,
		"area": 2e6, "maxConc": 10000, "usleHSDRFine": 15, "usleHSDRCoarse": 5, "timeStepInSeconds": 86400}
	add("USLEFineSedimentGeneration", [][]float64{{0, 0, 0, 0.9, 0.3, 0.2, 15}, {0.8, 0.2, 40, 0.9, 0.3, 0.2, 15}, {0.8, 0, 5, 0.9, 0.3, 0.2, 200}, {0.8, 0.2, 40, 0.9, 0, 0.2, 200}}, us, cp(us, M{"maxConc": 10, "usleHSDRFine": 100}))
	gb := M{"YearDisturbance": 1900, "GullyEndYear": 2050, "Area": 2e6, "averageGullyActivityFactor": 0.4, "GullyAnnualAverageSedimentSupply": 500, "GullyPercentFine": 35,
		"managementPracticeFactor": 0.8, "longtermRunoffFactor": 3, "dailyRunoffPowerFactor": 1.2, "sdrFine": 60, "sdrCoarse": 10, "timeStepInSeconds": 86400}
	gl := [][]float64{{0, 2000, 250, 800}, {0.4, 2000, 250, 800}, {6, 2060, 250, 800}, {0.4, 1850, 250, 800}, {6, 2000, 0, 0}}
	add("DynamicSednetGully", gl, gb, cp(gb, M{"GullyPercentFine": 100, "longtermRunoffFactor": 0}))
	add("DynamicSednetGullyAlt", gl, gb, cp(gb, M{"GullyPercentFine": 0, "timeStepInSeconds": 3600}))
	rc2 := []float64{2, 0, 100, 0, 1}
	rc3 := []float64{3, 0, 10, 100, 1, 0.35, 0}
	rc4 := []float64{4, 0, 0.3, 7, 1250.5, 0, 0.1, 0.35, 0.9}
	rc4s := []float64{4, 0, 7, 7, 100, 0, 0.25, 0.75, 1} // a vertical step: the knot 7 occurs twice (and 7 is a letter)
	ts = append(ts, Table{Model: "RatingCurvePartition", Params: [][]float64{rc2, rc3, rc4, rc4s}, PNames: []string{"n=2", "n=3", "n=4", "n=4-step"}, Letters: [][]float64{{0}, {0.3}, {7}, {100}}, Cost: 1})
	return ts
}

// All returns tables for all catalogued models.
func All() []Table { return append(Stateful(), Stateless()...) }

// Has reports whether /verif has a parameter / alphabet table for the model (a model added to the catalogue after these
// tables were written has none: the enumerations are over the tabulated models and say so).
func Has(model string) bool {
	for _, t := range All() {
		if t.Model == model {
			return true
		}
	}
	return false
}

// GetAny returns the table of any catalogued model.
func GetAny(model string) Table {
	for _, t := range All() {
		if t.Model == model {
			return t
		}
	}
	panic("tables: no table for " + model)
}
