// Package tables holds per-model parameter vectors and input alphabets shared by several checks
// (C04, C06, C12, C14). Every entry is in the model's documented / physical range.
package tables

import (
	"fmt"

	"owverif.local/verif/gridx"
)

type Table struct {
	Model   string
	Params  [][]float64
	PNames  []string
	Letters [][]float64
	Cost    int // 1 = cheap kernel, 2 = solver, 3 = adaptive sub-stepping
}

func pvs(model string, sets ...map[string]float64) ([][]float64, []string) {
	var out [][]float64
	var names []string
	for _, s := range sets {
		out = append(out, gridx.PV(model, s))
		names = append(names, fmt.Sprint(s))
	}
	return out, names
}

type M = map[string]float64

// StorageParams builds the flat parameter vector of the Storage model.
func StorageParams(dt float64, levels, volumes, areas, minRel, maxRel []float64) []float64 {
	n := len(levels)
	v := []float64{dt, float64(n)}
	for _, a := range [][]float64{levels, volumes, areas, minRel, maxRel} {
		v = append(v, a...)
	}
	return v
}

var RainPet = [][]float64{{0, 0}, {0, 5}, {2, 5}, {30, 1}, {150, 0}}

// Stateful returns the tables of all models that carry state between calls.
func Stateful() []Table {
	var ts []Table
	add := func(model string, letters [][]float64, cost int, sets ...map[string]float64) {
		p, n := pvs(model, sets...)
		ts = append(ts, Table{Model: model, Params: p, PNames: n, Letters: letters, Cost: cost})
	}
	add("GR4J", RainPet, 1,
		M{"X1": 350, "X2": 0, "X3": 90, "X4": 0.5}, M{"X1": 100, "X2": -3, "X3": 20, "X4": 1}, M{"X1": 350, "X2": 2, "X3": 90, "X4": 1.4},
		M{"X1": 1200, "X2": 0, "X3": 300, "X4": 2.5}, M{"X1": 350, "X2": -1, "X3": 90, "X4": 4}, M{"X1": 350, "X2": 0, "X3": 90, "X4": 0.7})
	add("Sacramento", RainPet, 1,
		M{}, M{"uh1": 1, "uh2": 0, "uh3": 0, "uh4": 0, "uh5": 0}, M{"adimp": 0.2, "pctim": 0.1, "sarva": 0.1, "side": 0.3, "ssout": 0.2},
		M{"uztwm": 5, "uzfwm": 5, "lztwm": 5, "lzfsm": 5, "lzfpm": 5, "uh1": 1, "uh2": 0, "uh3": 0, "uh4": 0, "uh5": 0})
	sim := M{"baseflowCoefficient": 0.3, "imperviousThreshold": 1, "infiltrationCoefficient": 200, "infiltrationShape": 3, "interflowCoefficient": 0.1,
		"perviousFraction": 0.9, "rainfallInterceptionStoreCapacity": 1.5, "rechargeCoefficient": 0.2, "soilMoistureStoreCapacity": 120}
	sim2 := M{"baseflowCoefficient": 0.05, "imperviousThreshold": 0, "infiltrationCoefficient": 20, "infiltrationShape": 8, "interflowCoefficient": 0.6,
		"perviousFraction": 1, "rainfallInterceptionStoreCapacity": 0, "rechargeCoefficient": 0.8, "soilMoistureStoreCapacity": 20}
	add("Simhyd", RainPet, 1, sim, sim2)
	sur := M{"bfac": 0.1, "coeff": 150, "dseep": 0.01, "fcFrac": 0.5, "fimp": 0.1, "rfac": 0.2, "smax": 150, "sq": 2, "thres": 1}
	sur2 := M{"bfac": 0.6, "coeff": 20, "dseep": 0.2, "fcFrac": 0.1, "fimp": 0, "rfac": 0.9, "smax": 25, "sq": 6, "thres": 0}
	add("Surm", RainPet, 1, sur, sur2)

	srL := [][]float64{{0, 0, 0, 0}, {0.5, 0, 0, 0}, {20, 0, 0, 0}, {500, 3, 0, 0}, {20, 0, 10, 0}, {0.5, 0, 0, 8}}
	add("StorageRouting", srL, 2,
		M{"RoutingConstant": 21600, "RoutingPower": 1, "DeltaT": 86400}, M{"RoutingConstant": 86400, "RoutingPower": 0.8, "DeltaT": 86400, "area": 1e4},
		M{"RoutingConstant": 172800, "RoutingPower": 0.6, "DeltaT": 86400, "deadStorage": 5e4}, M{"RoutingConstant": 86400, "RoutingPower": 0.8, "DeltaT": 86400, "InflowBias": 0.2})
	muL := gridx.LettersProduct([]float64{0, 10, 50}, []float64{0, 4})
	add("Muskingum", muL, 1, M{"K": 86400, "X": 0.2, "DeltaT": 86400}, M{"K": 43200, "X": 0, "DeltaT": 86400}, M{"K": 172800, "X": 0.25, "DeltaT": 86400})
	add("Lag", [][]float64{{0}, {1}, {7}, {3.5}}, 1, M{"timeLag": 0}, M{"timeLag": 1}, M{"timeLag": 2}, M{"timeLag": 3}, M{"timeLag": 5})

	// constituent transport: (loads..., outflow, storage)
	lcL := [][]float64{{0, 0, 0, 0}, {2, 0, 5, 1e3}, {0, 1, 5, 1e3}, {40, 3, 120, 1e6}, {2, 0, 0, 5e-3}, {2, 1, 0, 1e3}}
	add("LumpedConstituentRouting", lcL, 1, M{"X": 0, "pointInput": 0, "DeltaT": 86400}, M{"X": 0.2, "pointInput": 0.5, "DeltaT": 3600})
	cdL := [][]float64{{0, 0, 0, 0, 0}, {2, 0, 5, 5, 1e3}, {0, 1, 5, 5, 1e3}, {40, 3, 100, 120, 1e6}, {2, 0, 0, 0, 5e-3}, {2, 1, 1, 0, 1e3}}
	add("ConstituentDecay", cdL, 1, M{"halfLife": 0, "DeltaT": 86400}, M{"halfLife": 86400 * 3, "DeltaT": 86400}, M{"halfLife": 3600, "DeltaT": 3600})
	fine := M{"bankFullFlow": 50, "fineSedSettVelocityFlood": 1e-5, "floodPlainArea": 1e6, "linkWidth": 20, "linkLength": 5000, "linkSlope": 0.001, "bankHeight": 2,
		"propBankHeightForFineDep": 0.1, "sedBulkDensity": 1.5, "manningsN": 0.04, "fineSedSettVelocity": 1e-4, "fineSedReMobVelocity": 1e-3, "durationInSeconds": 86400}
	fine0 := cp(fine, M{"bankFullFlow": 0})
	fine2 := cp(fine, M{"fineSedSettVelocity": 1e-2, "fineSedReMobVelocity": 0.5, "propBankHeightForFineDep": 0.001})
	ifL := [][]float64{{0, 0, 0, 0, 0}, {2, 0.5, 0.1, 1e4, 5}, {500, 0, 0, 1e4, 0.5}, {50, 2, 1, 1e6, 120}, {0, 0, 0, 1e4, 30}, {2, 0, 0, 0, 0}}
	add("InstreamFineSediment", ifL, 1, fine, fine0, fine2)
	add("InstreamCoarseSediment", [][]float64{{0, 0, 0}, {2, 0.5, 0.1}, {50, 0, 3}}, 1, M{"durationInSeconds": 86400}, M{"durationInSeconds": 3600})
	ipL := [][]float64{{0, 0, 0, 0, 0, 0, 0, 0}, {2, 0.5, 1e4, 5, 0.2, 1, 0.1, 0.2}, {2, 0.5, 1e4, 5, 0, 0, 0, -0.1}, {40, 3, 1e6, 120, 1, 1, 0.6, 0.5}, {2, 1, 0, 0, 0, 1, 0, 0}, {0, 0, 1e4, 5, 0, 0, 0, -0.3}}
	add("InstreamParticulateNutrient", ipL, 1, M{"particulateNutrientConcentration": 0.002, "soilPercentFine": 35, "durationInSeconds": 86400}, M{"particulateNutrientConcentration": 0, "soilPercentFine": 100, "durationInSeconds": 3600})
	idL := [][]float64{{0, 0, 0, 0, 0}, {2, 0.5, 1e4, 5, 0}, {40, 3, 1e6, 120, 0.1}, {2, 1, 2e5, 0.05, 0}, {2, 1, 0, 0, 0}}
	dn := M{"doDecay": 1, "pointSourceLoad": 1000, "linkHeight": 3, "linkWidth": 20, "linkLength": 5000, "uptakeVelocity": 0.1, "durationInSeconds": 86400}
	add("InstreamDissolvedNutrientDecay", idL, 1, dn, cp(dn, M{"doDecay": 0}), cp(dn, M{"pointSourceLoad": 0, "uptakeVelocity": 0}))

	// reservoirs
	stp := StorageParams(86400, []float64{0, 5, 10}, []float64{0, 1e6, 3e6}, []float64{0, 2e5, 4e5}, []float64{0, 0, 50}, []float64{0, 20, 80})
	stp2 := StorageParams(3600, []float64{0, 10}, []float64{0, 2e6}, []float64{0, 1e5}, []float64{0, 0}, []float64{0, 5})
	stL := [][]float64{{0, 0, 0, 0, 0, 0}, {20, 0, 200, 0, 0, 0}, {0, 8, 2, 50, 0, 0}, {0, 0, 2, 1, 0, 0}}
	ts = append(ts, Table{Model: "Storage", Params: [][]float64{stp, stp2}, PNames: []string{"n=3 dt=86400", "n=2 dt=3600"}, Letters: stL, Cost: 3})
	rsL := [][]float64{{0, 0, 0, 1e5}, {2, 5, 5, 1e5}, {40, 120, 100, 3e6}, {2, 0.5, 0, 1e5}, {0, 5, 20, 5e4}, {2, 0.5, 0, 0}}
	add("StorageParticulateTrapping", rsL, 1, M{"DeltaT": 86400, "reservoirCapacity": 3e6, "reservoirLength": 4000, "subtractor": 112, "multiplier": 800, "lengthDischargeFactor": 3.28, "lengthDischargePower": -0.2},
		M{"DeltaT": 86400, "reservoirCapacity": 3e6, "reservoirLength": 0, "subtractor": 112, "multiplier": 800, "lengthDischargeFactor": 3.28, "lengthDischargePower": -0.2})
	add("StorageTrapAll", rsL, 1, M{})
	add("StorageDissolvedDecay", rsL, 1, M{"DeltaT": 86400, "doStorageDecay": 0, "bankFullFlow": 50, "medianFloodResidenceTime": 2},
		M{"DeltaT": 86400, "doStorageDecay": 1, "bankFullFlow": 50, "medianFloodResidenceTime": 2}, M{"DeltaT": 86400, "doStorageDecay": 1, "bankFullFlow": 50, "medianFloodResidenceTime": 0})
	return ts
}

func cp(base M, over M) M {
	out := M{}
	for k, v := range base {
		out[k] = v
	}
	for k, v := range over {
		out[k] = v
	}
	return out
}

// Get returns the table of a model.
func Get(model string) Table {
	for _, t := range Stateful() {
		if t.Model == model {
			return t
		}
	}
	panic("tables: no table for " + model)
}
