// Package mrun drives catalogued models through the real Go API (ApplyParameters / InitialiseStates / Run).
package mrun

import (
	"math"

	"github.com/flowmatters/openwater-core/data"
	_ "github.com/flowmatters/openwater-core/models"
	"github.com/flowmatters/openwater-core/sim"
)

// Result of a one-cell run.
type Result struct {
	Out    [][]float64 // [output][t]
	States []float64   // final states
	Init   []float64   // states the run started from
}

// Names returns the catalogue's model names (sorted).
func Names() []string {
	out := make([]string, 0, len(sim.Catalog))
	for k := range sim.Catalog {
		out = append(out, k)
	}
	sortStrings(out)
	return out
}

func sortStrings(a []string) {
	for i := 1; i < len(a); i++ {
		for j := i; j > 0 && a[j] < a[j-1]; j-- {
			a[j], a[j-1] = a[j-1], a[j]
		}
	}
}

// New returns a fresh model object with parameters applied. params is [param][set].
func New(name string, params [][]float64) sim.TimeSteppingModel {
	m := sim.Catalog[name]()
	Configure(m, params)
	return m
}

// Configure applies params ([param row][set]) to m, discovering table dimensions first.
func Configure(m sim.TimeSteppingModel, params [][]float64) {
	nsets := 1
	if len(params) > 0 {
		nsets = len(params[0])
	}
	p := data.NewArray2DFloat64(len(params), nsets)
	for i := range params {
		for j := range params[i] {
			p.Set2(i, j, params[i][j])
		}
	}
	dims := m.FindDimensions(p)
	if len(dims) > 0 {
		m.InitialiseDimensions(dims)
	}
	m.ApplyParameters(p)
}

// Col turns a flat parameter vector into the [param][1] form.
func Col(params []float64) [][]float64 {
	out := make([][]float64, len(params))
	for i, v := range params {
		out[i] = []float64{v}
	}
	return out
}

// Inputs3 builds the [cells][inputs][T] array.
func Inputs3(in [][][]float64, nin, T int) data.ND3Float64 {
	a := data.NewArray3DFloat64(len(in), nin, T)
	for c := range in {
		for i := range in[c] {
			for t := 0; t < T; t++ {
				a.Set3(c, i, t, in[c][i][t])
			}
		}
	}
	return a
}

// RunCell runs one cell: params flat vector, inputs [input][t], init == nil means model-initialised states.
func RunCell(name string, params []float64, inputs [][]float64, T int, init []float64) Result {
	m := New(name, Col(params))
	return RunOn(m, inputs, T, init)
}

// RunOn runs one cell on an already configured model object.
func RunOn(m sim.TimeSteppingModel, inputs [][]float64, T int, init []float64) Result {
	desc := m.Description()
	states := m.InitialiseStates(1)
	if init != nil {
		states = data.NewArray2DFloat64(1, len(init))
		for i, v := range init {
			states.Set2(0, i, v)
		}
	}
	ns := states.Len(1)
	res := Result{Init: make([]float64, ns)}
	for i := 0; i < ns; i++ {
		res.Init[i] = states.Get2(0, i)
	}
	in := Inputs3([][][]float64{inputs}, len(desc.Inputs), T)
	out := data.NewArray3DFloat64(1, len(desc.Outputs), T)
	m.Run(in, states, out)
	res.Out = make([][]float64, len(desc.Outputs))
	for o := range res.Out {
		res.Out[o] = make([]float64, T)
		for t := 0; t < T; t++ {
			res.Out[o][t] = out.Get3(0, o, t)
		}
	}
	res.States = make([]float64, ns)
	for i := 0; i < ns; i++ {
		res.States[i] = states.Get2(0, i)
	}
	return res
}

// Index returns the position of name in names, or -1.
func Index(names []string, name string) int {
	for i, n := range names {
		if n == name {
			return i
		}
	}
	return -1
}

// SameBits reports bit equality (NaN == NaN of the same payload).
func SameBits(a, b float64) bool { return math.Float64bits(a) == math.Float64bits(b) }

// Close reports |a-b| <= rel*scale + abs.
func Close(a, b, scale, rel, abs float64) bool {
	if math.IsNaN(a) || math.IsNaN(b) {
		return false
	}
	return math.Abs(a-b) <= rel*math.Abs(scale)+abs
}

// RunOnInputs runs one cell on an already built input array (which the caller may reuse), from init (nil = model-initialised).
func RunOnInputs(m sim.TimeSteppingModel, in data.ND3Float64, init []float64) Result {
	desc := m.Description()
	T := in.Len(2)
	states := m.InitialiseStates(1)
	if init != nil {
		states = data.NewArray2DFloat64(1, len(init))
		for i, v := range init {
			states.Set2(0, i, v)
		}
	}
	ns := states.Len(1)
	res := Result{Init: make([]float64, ns)}
	for i := 0; i < ns; i++ {
		res.Init[i] = states.Get2(0, i)
	}
	out := data.NewArray3DFloat64(1, len(desc.Outputs), T)
	m.Run(in, states, out)
	res.Out = make([][]float64, len(desc.Outputs))
	for o := range res.Out {
		res.Out[o] = make([]float64, T)
		for t := 0; t < T; t++ {
			res.Out[o][t] = out.Get3(0, o, t)
		}
	}
	res.States = make([]float64, ns)
	for i := 0; i < ns; i++ {
		res.States[i] = states.Get2(0, i)
	}
	return res
}

// RunCells runs several cells (no table parameters) in ONE vectorised Run: cellParams[c] is cell c's parameter vector,
// inputs[c][input][t] its series; states is the rectangular state array to start from (nil = InitialiseStates) and
// is updated in place. Returns out[cell][output][t] and the state array.
func RunCells(name string, cellParams [][]float64, inputs [][][]float64, T int, states data.ND2Float64) ([][][]float64, data.ND2Float64) {
	n := len(cellParams)
	rows := make([][]float64, len(cellParams[0]))
	for i := range rows {
		rows[i] = make([]float64, n)
		for c := 0; c < n; c++ {
			rows[i][c] = cellParams[c][i]
		}
	}
	m := New(name, rows)
	desc := m.Description()
	if states == nil {
		states = m.InitialiseStates(n)
	}
	in := Inputs3(inputs, len(desc.Inputs), T)
	out := data.NewArray3DFloat64(n, len(desc.Outputs), T)
	m.Run(in, states, out)
	res := make([][][]float64, n)
	for c := range res {
		res[c] = make([][]float64, len(desc.Outputs))
		for o := range res[c] {
			res[c][o] = make([]float64, T)
			for t := 0; t < T; t++ {
				res[c][o][t] = out.Get3(c, o, t)
			}
		}
	}
	return res, states
}
