package sched

import (
	"fmt"
	"testing"

	"owverif.local/verif/vrt"
	"owverif.local/verif/vrt/vsync"
)

func TestLostUpdate(t *testing.T) {
	var counter int
	var final int
	h := &Harness{
		Reset: func() { counter = 0 },
		Body: func() {
			done := vrt.MakeChanInt(0)
			for i := 0; i < 2; i++ {
				vrt.Go(func() {
					v := counter
					vrt.Sleep(0) // a visible operation between read and write
					counter = v + 1
					done.Send(1)
				})
			}
			done.Recv()
			done.Recv()
			final = counter
		},
		Observe: func(r vrt.Result) Outcome { return Outcome{Key: fmt.Sprint(final)} },
	}
	st := (&Explorer{Bound: -1}).Explore(h)
	t.Logf("executions=%d outcomes=%v races=%d problems=%v", st.Executions, st.Outcomes, st.Races, len(st.Problems))
	if len(st.Outcomes) != 2 {
		t.Fatalf("expected outcomes 1 and 2, got %v", st.Outcomes)
	}
	if vrt.RaceEnabled && st.Races == 0 {
		t.Fatalf("race detector saw nothing")
	}
}

func TestLockedCounterAndDeadlock(t *testing.T) {
	var counter, final int
	var mu vsync.Mutex
	h := &Harness{
		Reset: func() { counter = 0 },
		Body: func() {
			done := vrt.MakeChanInt(0)
			for i := 0; i < 2; i++ {
				vrt.Go(func() {
					mu.Lock()
					v := counter
					vrt.Sleep(0)
					counter = v + 1
					mu.Unlock()
					done.Send(1)
				})
			}
			for i := 0; i < 2; i++ {
				done.Recv()
			}
			final = counter
		},
		Observe: func(r vrt.Result) Outcome { return Outcome{Key: fmt.Sprint(final)} },
	}
	st := (&Explorer{Bound: 2}).Explore(h)
	t.Logf("executions=%d outcomes=%v races=%d", st.Executions, st.Outcomes, st.Races)
	if len(st.Outcomes) != 1 || st.Outcomes["2"] == 0 || st.Races != 0 || len(st.Problems) != 0 {
		t.Fatalf("locked counter: outcomes %v races %d problems %v", st.Outcomes, st.Races, st.Problems)
	}
	var a, b vsync.Mutex
	dl := &Harness{
		Body: func() {
			done := vrt.MakeChanInt(0)
			vrt.Go(func() { a.Lock(); b.Lock(); b.Unlock(); a.Unlock(); done.Send(1) })
			vrt.Go(func() { b.Lock(); a.Lock(); a.Unlock(); b.Unlock(); done.Send(1) })
			done.Recv()
			done.Recv()
		},
		Observe: func(r vrt.Result) Outcome { return Outcome{Key: "done"} },
	}
	st = (&Explorer{Bound: 2}).Explore(dl)
	t.Logf("deadlock harness: executions=%d deadlocks=%d", st.Executions, st.Deadlocks)
	if st.Deadlocks == 0 {
		t.Fatalf("deadlock not found")
	}
}
