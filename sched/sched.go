// Package sched: stateless, preemption-bounded depth-first exploration of the schedules of a harness body
// running under the vrt controlled scheduler (iterative context bounding: bound 0, 1, 2, ...).
package sched

import (
	"fmt"

	"owverif.local/verif/vrt"
)

// Outcome of one execution, produced by the harness.
type Outcome struct {
	Key     string      // canonical observation (final file content, outputs, ...)
	Problem string      // non-empty: a monitor or oracle was violated
	Detail  interface{} // for the replay file
}

// Harness is the system under exploration.
type Harness struct {
	Name     string
	Body     func()                     // runs as logical thread 0
	Reset    func()                     // before every execution
	Observe  func(r vrt.Result) Outcome // after every execution
	Monitor  func() func(e vrt.Event)   // optional: a fresh per-execution event monitor
	MaxSteps int
}

// Stats of an exploration.
type Stats struct {
	Executions     int
	Points         int
	MaxThreads     int
	Bound          int // preemption bound completed (-1: unbounded)
	Complete       bool
	HorizonHits    int
	Outcomes       map[string]int
	Deadlocks      int
	Races          int
	Problems       map[string]*Problem
	ReplayDiverged int
	Traces         [][]vrt.Event // event traces (kept when KeepTraces)
}

type Problem struct {
	Kind    string
	Count   int
	Choices []int // schedule of the first occurrence
	Events  []string
	Detail  interface{}
}

type Explorer struct {
	Deviations bool // true: Bound limits the number of departures from the default choice (preemptive or not);
	// false: Bound limits preemptions only (switches away from a thread that could continue)
	Bound          int // -1: unbounded
	Shard, NShards int // split the exploration over processes by first-level subtree (NShards 0/1: everything)
	MaxExec        int // safety cap on executions (0: none)
	KeepTraces     bool
	OnExec         func(r vrt.Result, choices []int) // optional
}

func (e *Explorer) run(h *Harness, prefix []int) vrt.Result {
	if h.Reset != nil {
		h.Reset()
	}
	var mon func(vrt.Event)
	if h.Monitor != nil {
		mon = h.Monitor()
	}
	ms := h.MaxSteps
	if ms == 0 {
		ms = 2000
	}
	return vrt.Run(h.Body, prefix, ms, mon)
}

// Explore enumerates every schedule with at most Bound preemptions.
func (e *Explorer) Explore(h *Harness) *Stats {
	st := &Stats{Outcomes: map[string]int{}, Problems: map[string]*Problem{}, Bound: e.Bound, Complete: true}
	// hygiene: the default schedule twice must give the same event log
	r1 := e.run(h, nil)
	r2 := e.run(h, nil)
	if fmt.Sprint(r1.Events) != fmt.Sprint(r2.Events) {
		st.Problems["harness/nondeterministic-replay"] = &Problem{Kind: "harness/nondeterministic-replay", Count: 1, Events: eventStrings(r1.Events)}
		st.Complete = false
		return st
	}
	// the race detector reports a given race once per process: the two hygiene runs count too
	for _, r := range []vrt.Result{r1, r2} {
		if r.Races > 0 {
			st.Races += r.Races
			p := st.Problems["data-race"]
			if p == nil {
				p = &Problem{Kind: "data-race", Events: eventStrings(r.Events), Detail: fmt.Sprintf("%d race report(s) from the Go race detector in the default schedule (see stderr)", r.Races)}
				st.Problems["data-race"] = p
			}
			p.Count++
		}
	}
	top := 0
	var rec func(prefix []int)
	rec = func(prefix []int) {
		if e.MaxExec > 0 && st.Executions >= e.MaxExec {
			st.Complete = false
			return
		}
		r := e.run(h, prefix)
		st.Executions++
		st.Points += len(r.Points)
		if r.Threads > st.MaxThreads {
			st.MaxThreads = r.Threads
		}
		choices := make([]int, len(r.Points))
		for i, p := range r.Points {
			choices[i] = p.Chosen
		}
		if r.Diverged {
			st.ReplayDiverged++
			st.Complete = false
			return
		}
		if e.OnExec != nil {
			e.OnExec(r, choices)
		}
		if e.KeepTraces {
			st.Traces = append(st.Traces, r.Events)
		}
		note := func(kind string, detail interface{}) {
			p := st.Problems[kind]
			if p == nil {
				p = &Problem{Kind: kind, Choices: append([]int{}, choices...), Events: eventStrings(r.Events), Detail: detail}
				st.Problems[kind] = p
			}
			p.Count++
		}
		if r.Horizon {
			st.HorizonHits++
			st.Complete = false
		}
		if r.Deadlock {
			st.Deadlocks++
			note("deadlock", nil)
		}
		if r.Panic != "" {
			note("panic", r.Panic)
		}
		if r.Races > 0 {
			st.Races += r.Races
			note("data-race", fmt.Sprintf("%d race report(s) from the Go race detector in this schedule (see stderr)", r.Races))
		}
		if !r.Horizon && h.Observe != nil {
			o := h.Observe(r)
			st.Outcomes[o.Key]++
			if o.Problem != "" {
				note(o.Problem, o.Detail)
			}
		}
		// alternatives
		pre := 0
		for i := 0; i < len(r.Points); i++ {
			p := r.Points[i]
			if i >= len(prefix) {
				cost := pre
				if p.CurEnabled || e.Deviations {
					cost++
				}
				if e.Bound < 0 || cost <= e.Bound {
					for alt := 1; alt < p.N; alt++ {
						if len(prefix) == 0 && e.NShards > 1 {
							top++
							if top%e.NShards != e.Shard {
								continue
							}
						}
						rec(append(append([]int{}, choices[:i]...), alt))
					}
				}
			}
			if (p.CurEnabled || e.Deviations) && p.Chosen != 0 {
				pre++
			}
		}
	}
	rec(nil)
	return st
}

func eventStrings(ev []vrt.Event) []string {
	out := make([]string, len(ev))
	for i, e := range ev {
		out[i] = e.String()
	}
	return out
}

// Replay runs one recorded schedule.
func Replay(h *Harness, choices []int) (vrt.Result, Outcome) {
	e := &Explorer{}
	r := e.run(h, choices)
	var o Outcome
	if h.Observe != nil {
		o = h.Observe(r)
	}
	return r, o
}
