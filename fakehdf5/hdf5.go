// Package hdf5 is an in-memory stand-in for gonum.org/v1/hdf5 (the image has no libhdf5, so the real
// binding cannot be compiled). It implements exactly the API surface flowmatters/openwater-core uses,
// over a process-local registry  filename -> tree of groups / datasets, with HDF5's documented hyperslab
// semantics (start, stride, count, block; row-major transfer between the selection and a fully selected
// memory space; a selection outside the extent makes the transfer fail). It is deliberately NOT
// thread-safe (neither is libhdf5): callers must serialise, which is what property C08 is about.
//
// Extra entry points (Fake*) are a back door for the verification harness.
package hdf5

import (
	"errors"
	"fmt"
	"os"
	"reflect"
	"sort"
	"strings"
	"unsafe"
)

// ---------------------------------------------------------------------------------------------
// constants

const (
	F_ACC_RDONLY int = 0x0000
	F_ACC_RDWR   int = 0x0001
	F_ACC_TRUNC  int = 0x0002
	F_ACC_EXCL   int = 0x0004
	F_ACC_CREAT  int = 0x0010
)

type GType int

const (
	H5G_UNKNOWN GType = -1
	H5G_GROUP   GType = 0
	H5G_DATASET GType = 1
	H5G_TYPE    GType = 2
	H5G_LINK    GType = 3
)

type PropType int

const (
	P_DATASET_CREATE   PropType = 1
	DefaultCompression          = 6
)

// Hook, when set, is called at the beginning (begin=true) and end of every library entry point.
// write tells whether the call belongs to the write class (create / truncate / write / open for writing).
var Hook func(name string, write bool, begin bool)

func enter(name string, write bool) func() {
	if Hook != nil {
		Hook(name, write, true)
		return func() { Hook(name, write, false) }
	}
	return func() {}
}

// ---------------------------------------------------------------------------------------------
// the store

type node interface{}

type group struct {
	children map[string]node
}

type dataset struct {
	elem    reflect.Type // element type (uint8 for fixed strings)
	strSize int          // >0: fixed-length string of this size
	dims    []uint
	data    reflect.Value // slice of elem, len = product(dims) (x strSize for strings)
}

type fileData struct {
	name string
	root *group
}

var registry = map[string]*fileData{}

// WriteRecord is one transfer into a dataset, kept for the harness.
type WriteRecord struct {
	File, Path string
	Whole      bool
	Offset     []uint
	Stride     []uint
	Count      []uint
	Block      []uint
	Elements   int
}

var writeLog []WriteRecord

func newGroup() *group { return &group{children: map[string]node{}} }

func splitPath(p string) []string {
	var out []string
	for _, c := range strings.Split(p, "/") {
		if c != "" {
			out = append(out, c)
		}
	}
	return out
}

func (g *group) walk(path string) (node, bool) {
	var cur node = g
	for _, c := range splitPath(path) {
		gg, ok := cur.(*group)
		if !ok {
			return nil, false
		}
		cur, ok = gg.children[c]
		if !ok {
			return nil, false
		}
	}
	return cur, true
}

func product(d []uint) int {
	n := 1
	for _, x := range d {
		n *= int(x)
	}
	return n
}

// ---------------------------------------------------------------------------------------------
// identifiers, files, groups

type Identifier struct{}

type CommonFG struct {
	Identifier
	g        *group
	f        *fileData
	path     string
	writable bool
	open     bool
}

type File struct {
	CommonFG
}

type Group struct {
	CommonFG
}

func DisplayErrors(on bool) error { return nil }

func CreateFile(name string, flags int) (*File, error) {
	defer enter("CreateFile", true)()
	if _, exists := registry[name]; exists && flags&F_ACC_TRUNC == 0 {
		return nil, errors.New("hdf5: file exists")
	}
	fd := &fileData{name: name, root: newGroup()}
	registry[name] = fd
	// a marker on the real file system, because callers consult os.Stat
	if fh, err := os.Create(name); err == nil {
		fh.Close()
	}
	return &File{CommonFG{g: fd.root, f: fd, path: "/", writable: true, open: true}}, nil
}

func OpenFile(name string, flags int) (*File, error) {
	write := flags&F_ACC_RDWR != 0
	defer enter("OpenFile", write)()
	fd, ok := registry[name]
	if !ok {
		return nil, fmt.Errorf("hdf5: unable to open file %q", name)
	}
	return &File{CommonFG{g: fd.root, f: fd, path: "/", writable: write, open: true}}, nil
}

func (f *File) Close() error {
	defer enter("File.Close", false)()
	f.open = false
	return nil
}

func (f *File) FileName() string { return f.f.name }

func (g *Group) Close() error {
	defer enter("Group.Close", false)()
	g.open = false
	return nil
}

func (g *CommonFG) child(name string) string {
	if strings.HasSuffix(g.path, "/") {
		return g.path + strings.TrimPrefix(name, "/")
	}
	return g.path + "/" + strings.TrimPrefix(name, "/")
}

func (g *CommonFG) OpenGroup(name string) (*Group, error) {
	defer enter("OpenGroup", false)()
	n, ok := g.g.walk(name)
	if !ok {
		return nil, fmt.Errorf("hdf5: no such group %q", name)
	}
	gg, ok := n.(*group)
	if !ok {
		return nil, fmt.Errorf("hdf5: %q is not a group", name)
	}
	return &Group{CommonFG{g: gg, f: g.f, path: g.child(name), writable: g.writable, open: true}}, nil
}

func (g *CommonFG) CreateGroup(name string) (*Group, error) {
	defer enter("CreateGroup", true)()
	if !g.writable {
		return nil, errors.New("hdf5: file is read-only")
	}
	parts := splitPath(name)
	if len(parts) != 1 {
		return nil, fmt.Errorf("hdf5: cannot create group %q (intermediate groups missing)", name)
	}
	if _, exists := g.g.children[parts[0]]; exists {
		return nil, fmt.Errorf("hdf5: name %q already exists", name)
	}
	ng := newGroup()
	g.g.children[parts[0]] = ng
	return &Group{CommonFG{g: ng, f: g.f, path: g.child(name), writable: true, open: true}}, nil
}

func (g *CommonFG) sortedNames() []string {
	names := make([]string, 0, len(g.g.children))
	for k := range g.g.children {
		names = append(names, k)
	}
	sort.Strings(names)
	return names
}

func (g *CommonFG) NumObjects() (uint, error) {
	defer enter("NumObjects", false)()
	return uint(len(g.g.children)), nil
}

func (g *CommonFG) ObjectNameByIndex(idx uint) (string, error) {
	defer enter("ObjectNameByIndex", false)()
	names := g.sortedNames()
	if int(idx) >= len(names) {
		return "", errors.New("hdf5: index out of range")
	}
	return names[idx], nil
}

func (g *CommonFG) ObjectTypeByIndex(idx uint) (GType, error) {
	defer enter("ObjectTypeByIndex", false)()
	names := g.sortedNames()
	if int(idx) >= len(names) {
		return H5G_UNKNOWN, errors.New("hdf5: index out of range")
	}
	switch g.g.children[names[idx]].(type) {
	case *group:
		return H5G_GROUP, nil
	case *dataset:
		return H5G_DATASET, nil
	}
	return H5G_UNKNOWN, nil
}

// ---------------------------------------------------------------------------------------------
// datatypes, dataspaces, property lists

type Datatype struct {
	goType  reflect.Type
	strSize int
}

func NewDataTypeFromType(t reflect.Type) (*Datatype, error) {
	defer enter("NewDataTypeFromType", false)()
	switch t.Kind() {
	case reflect.Float64, reflect.Float32, reflect.Int32, reflect.Uint32, reflect.Int64, reflect.Uint64, reflect.Int, reflect.Uint, reflect.Int8, reflect.Uint8, reflect.Int16, reflect.Uint16:
		return &Datatype{goType: t}, nil
	case reflect.String:
		return &Datatype{goType: t}, nil
	}
	return nil, fmt.Errorf("hdf5: unsupported type %v", t)
}

func NewDatatypeFromValue(v interface{}) (*Datatype, error) {
	return NewDataTypeFromType(reflect.TypeOf(v))
}

func (t *Datatype) GoType() reflect.Type { return t.goType }
func (t *Datatype) Size() uint {
	if t.strSize > 0 {
		return uint(t.strSize)
	}
	return uint(t.goType.Size())
}
func (t *Datatype) Close() error {
	defer enter("Datatype.Close", false)()
	return nil
}

type hyperslab struct{ offset, stride, count, block []uint }

type Dataspace struct {
	dims []uint
	sel  *hyperslab
}

func CreateSimpleDataspace(dims, maxDims []uint) (*Dataspace, error) {
	defer enter("CreateSimpleDataspace", false)()
	return &Dataspace{dims: append([]uint{}, dims...)}, nil
}

func (s *Dataspace) Close() error {
	defer enter("Dataspace.Close", false)()
	return nil
}

func (s *Dataspace) SimpleExtentDims() (dims, maxdims []uint, err error) {
	defer enter("Dataspace.SimpleExtentDims", false)()
	return append([]uint{}, s.dims...), append([]uint{}, s.dims...), nil
}

func (s *Dataspace) SimpleExtentNDims() int { return len(s.dims) }

func (s *Dataspace) SelectHyperslab(offset, stride, count, block []uint) error {
	defer enter("Dataspace.SelectHyperslab", false)()
	defer enter("SelectHyperslab", false)()
	if len(offset) != len(s.dims) || len(count) != len(s.dims) {
		return errors.New("size of offset does not match extent")
	}
	h := &hyperslab{offset: append([]uint{}, offset...), count: append([]uint{}, count...)}
	for d := range s.dims {
		st, bl := uint(1), uint(1)
		if stride != nil {
			st = stride[d]
		}
		if block != nil {
			bl = block[d]
		}
		if st == 0 {
			return errors.New("hdf5: invalid stride (0)")
		}
		// libhdf5: a zero count (or block) selects nothing and succeeds
		if bl > st && count[d] > 1 {
			return errors.New("hdf5: hyperslab blocks overlap")
		}
		h.stride = append(h.stride, st)
		h.block = append(h.block, bl)
	}
	s.sel = h
	return nil
}

// offsets returns the linear (row-major) element offsets selected in the extent, in selection order,
// or an error when the selection leaves the extent.
func (s *Dataspace) offsets() ([]int, error) {
	nd := len(s.dims)
	n := product(s.dims)
	if s.sel == nil {
		out := make([]int, n)
		for i := range out {
			out[i] = i
		}
		return out, nil
	}
	// per dimension: the selected coordinates in increasing order
	coords := make([][]int, nd)
	for d := 0; d < nd; d++ {
		if s.sel.count[d] == 0 || s.sel.block[d] == 0 {
			return []int{}, nil
		}
	}
	for d := 0; d < nd; d++ {
		for c := uint(0); c < s.sel.count[d]; c++ {
			for b := uint(0); b < s.sel.block[d]; b++ {
				x := s.sel.offset[d] + c*s.sel.stride[d] + b
				if x >= s.dims[d] {
					return nil, fmt.Errorf("hdf5: selection out of extent in dimension %d (%d >= %d)", d, x, s.dims[d])
				}
				coords[d] = append(coords[d], int(x))
			}
		}
	}
	var out []int
	idx := make([]int, nd)
	if nd == 0 {
		return []int{0}, nil
	}
	for {
		lin := 0
		for d := 0; d < nd; d++ {
			lin = lin*int(s.dims[d]) + coords[d][idx[d]]
		}
		out = append(out, lin)
		d := nd - 1
		for ; d >= 0; d-- {
			idx[d]++
			if idx[d] < len(coords[d]) {
				break
			}
			idx[d] = 0
		}
		if d < 0 {
			break
		}
	}
	return out, nil
}

type PropList struct{}

func NewPropList(cls PropType) (*PropList, error) {
	defer enter("NewPropList", false)()
	return &PropList{}, nil
}
func (p *PropList) Close() error {
	defer enter("PropList.Close", false)()
	return nil
}
func (p *PropList) SetDeflate(level int) error {
	defer enter("PropList.SetDeflate", false)()
	return nil
}
func (p *PropList) SetChunk(dims []uint) error {
	defer enter("PropList.SetChunk", false)()
	return nil
}

// ---------------------------------------------------------------------------------------------
// datasets

type Dataset struct {
	Identifier
	ds       *dataset
	file     string
	path     string
	writable bool
}

func (g *CommonFG) OpenDataset(name string) (*Dataset, error) {
	defer enter("OpenDataset", false)()
	n, ok := g.g.walk(name)
	if !ok {
		return nil, fmt.Errorf("hdf5: no such dataset %q", name)
	}
	ds, ok := n.(*dataset)
	if !ok {
		return nil, fmt.Errorf("hdf5: %q is not a dataset", name)
	}
	return &Dataset{ds: ds, file: g.f.name, path: g.child(name), writable: g.writable}, nil
}

func (g *CommonFG) CreateDataset(name string, dtype *Datatype, dspace *Dataspace) (*Dataset, error) {
	return g.CreateDatasetWith(name, dtype, dspace, nil)
}

func (g *CommonFG) CreateDatasetWith(name string, dtype *Datatype, dspace *Dataspace, dcpl *PropList) (*Dataset, error) {
	defer enter("CreateDataset", true)()
	if !g.writable {
		return nil, errors.New("hdf5: file is read-only")
	}
	parts := splitPath(name)
	if len(parts) != 1 {
		return nil, fmt.Errorf("hdf5: cannot create dataset %q (intermediate groups missing)", name)
	}
	if _, exists := g.g.children[parts[0]]; exists {
		return nil, fmt.Errorf("hdf5: name %q already exists", name)
	}
	if dtype.goType.Kind() == reflect.String {
		return nil, errors.New("hdf5: string datasets are created through the harness back door only")
	}
	ds := &dataset{elem: dtype.goType, dims: append([]uint{}, dspace.dims...)}
	ds.data = reflect.MakeSlice(reflect.SliceOf(ds.elem), product(ds.dims), product(ds.dims))
	g.g.children[parts[0]] = ds
	return &Dataset{ds: ds, file: g.f.name, path: g.child(name), writable: true}, nil
}

func (s *Dataset) Close() error {
	defer enter("Dataset.Close", false)()
	return nil
}

func (s *Dataset) Space() *Dataspace {
	defer enter("Dataset.Space", false)()
	defer enter("Dataset.Space", false)()
	return &Dataspace{dims: append([]uint{}, s.ds.dims...)}
}

func (s *Dataset) Datatype() (*Datatype, error) {
	defer enter("Dataset.Datatype", false)()
	defer enter("Dataset.Datatype", false)()
	if s.ds.strSize > 0 {
		return &Datatype{goType: reflect.TypeOf(""), strSize: s.ds.strSize}, nil
	}
	return &Datatype{goType: s.ds.elem}, nil
}

// buffer returns the caller's slice as a reflect.Value (data is *[]T or []T).
func buffer(data interface{}) (reflect.Value, error) {
	v := reflect.Indirect(reflect.ValueOf(data))
	if v.Kind() != reflect.Slice {
		return v, fmt.Errorf("hdf5: unsupported buffer %T", data)
	}
	return v, nil
}

// transfer copies element i of the dataset storage (unit = one element, or strSize bytes for strings)
func (s *Dataset) unit() int {
	if s.ds.strSize > 0 {
		return s.ds.strSize
	}
	return 1
}

func compatible(buf reflect.Value, ds *dataset) error {
	if buf.Type().Elem().Size() != ds.elem.Size() {
		return fmt.Errorf("hdf5: buffer element type %v does not match the dataset's %v (raw transfer)", buf.Type().Elem(), ds.elem)
	}
	return nil
}

// raw copy between two slices of equally sized element types
func rawCopy(dst reflect.Value, di int, src reflect.Value, si int, n int) {
	if n == 0 {
		return
	}
	sz := int(dst.Type().Elem().Size())
	d := unsafe.Slice((*byte)(unsafe.Pointer(dst.Index(di).UnsafeAddr())), n*sz)
	s := unsafe.Slice((*byte)(unsafe.Pointer(src.Index(si).UnsafeAddr())), n*sz)
	copy(d, s)
}

func addressable(v reflect.Value) reflect.Value {
	if v.Len() > 0 && !v.Index(0).CanAddr() {
		c := reflect.MakeSlice(v.Type(), v.Len(), v.Len())
		reflect.Copy(c, v)
		return c
	}
	return v
}

func (s *Dataset) ReadSubset(data interface{}, memspace, filespace *Dataspace) error {
	defer enter("Dataset.Read", false)()
	buf, err := buffer(data)
	if err != nil {
		return err
	}
	if err := compatible(buf, s.ds); err != nil {
		return err
	}
	fs := filespace
	if fs == nil {
		fs = &Dataspace{dims: s.ds.dims}
	}
	offs, err := fs.offsets()
	if err != nil {
		return err
	}
	u := s.unit()
	if memspace != nil && product(memspace.dims) != len(offs) {
		return fmt.Errorf("hdf5: memory space has %d elements, file selection %d", product(memspace.dims), len(offs))
	}
	if buf.Len() < len(offs)*u {
		return fmt.Errorf("hdf5: buffer too small (%d < %d)", buf.Len(), len(offs)*u)
	}
	for k, o := range offs {
		rawCopy(buf, k*u, s.ds.data, o*u, u)
	}
	return nil
}

func (s *Dataset) Read(data interface{}) error { return s.ReadSubset(data, nil, nil) }

func (s *Dataset) WriteSubset(data interface{}, memspace, filespace *Dataspace) error {
	defer enter("Dataset.Write", true)()
	if !s.writable {
		return errors.New("hdf5: dataset opened read-only")
	}
	buf, err := buffer(data)
	if err != nil {
		return err
	}
	buf = addressable(buf)
	if err := compatible(buf, s.ds); err != nil {
		return err
	}
	fs := filespace
	if fs == nil {
		fs = &Dataspace{dims: s.ds.dims}
	}
	offs, err := fs.offsets()
	if err != nil {
		return err
	}
	u := s.unit()
	if memspace != nil && product(memspace.dims) != len(offs) {
		return fmt.Errorf("hdf5: memory space has %d elements, file selection %d", product(memspace.dims), len(offs))
	}
	if buf.Len() < len(offs)*u {
		return fmt.Errorf("hdf5: buffer too small (%d < %d)", buf.Len(), len(offs)*u)
	}
	for k, o := range offs {
		rawCopy(s.ds.data, o*u, buf, k*u, u)
	}
	rec := WriteRecord{File: s.file, Path: s.path, Whole: fs.sel == nil, Elements: len(offs)}
	if fs.sel != nil {
		rec.Offset, rec.Stride, rec.Count, rec.Block = fs.sel.offset, fs.sel.stride, fs.sel.count, fs.sel.block
	}
	writeLog = append(writeLog, rec)
	return nil
}

func (s *Dataset) Write(data interface{}) error { return s.WriteSubset(data, nil, nil) }

// ---------------------------------------------------------------------------------------------
// harness back door

// FakeReset forgets every file (and removes their markers from the real file system).
func FakeReset() {
	for name := range registry {
		os.Remove(name)
	}
	registry = map[string]*fileData{}
	writeLog = nil
}

// FakeRemove forgets one file.
func FakeRemove(name string) {
	delete(registry, name)
	os.Remove(name)
}

func ensure(name string) *fileData {
	fd, ok := registry[name]
	if !ok {
		fd = &fileData{name: name, root: newGroup()}
		registry[name] = fd
		if fh, err := os.Create(name); err == nil {
			fh.Close()
		}
	}
	return fd
}

func mkparents(fd *fileData, path string) (*group, string) {
	parts := splitPath(path)
	g := fd.root
	for _, c := range parts[:len(parts)-1] {
		n, ok := g.children[c]
		if !ok {
			ng := newGroup()
			g.children[c] = ng
			n = ng
		}
		g = n.(*group)
	}
	return g, parts[len(parts)-1]
}

// FakePutDataset stores a dataset (values is a slice of the element type, row-major).
func FakePutDataset(file, path string, dims []int, values interface{}) {
	fd := ensure(file)
	g, leaf := mkparents(fd, path)
	v := reflect.ValueOf(values)
	ud := make([]uint, len(dims))
	for i, d := range dims {
		ud[i] = uint(d)
	}
	c := reflect.MakeSlice(v.Type(), v.Len(), v.Len())
	reflect.Copy(c, v)
	g.children[leaf] = &dataset{elem: v.Type().Elem(), dims: ud, data: c}
}

// FakePutGroup makes sure a group exists.
func FakePutGroup(file, path string) {
	fd := ensure(file)
	mkparents(fd, path+"/x")
}

// FakePutStrings stores a 1-D dataset of fixed-length strings.
func FakePutStrings(file, path string, values []string, size int) {
	fd := ensure(file)
	g, leaf := mkparents(fd, path)
	b := make([]byte, len(values)*size)
	for i, s := range values {
		copy(b[i*size:(i+1)*size], s)
	}
	g.children[leaf] = &dataset{elem: reflect.TypeOf(byte(0)), strSize: size, dims: []uint{uint(len(values))}, data: reflect.ValueOf(b)}
}

// FakeEntry describes one dataset of a file.
type FakeEntry struct {
	Dims   []int
	Values interface{} // a copy of the storage slice
}

// FakeDump returns every dataset of a file by full path; groups are listed with a nil entry value.
func FakeDump(file string) (map[string]FakeEntry, []string) {
	out := map[string]FakeEntry{}
	var groups []string
	fd, ok := registry[file]
	if !ok {
		return nil, nil
	}
	var rec func(g *group, prefix string)
	rec = func(g *group, prefix string) {
		for name, n := range g.children {
			p := prefix + "/" + name
			switch x := n.(type) {
			case *group:
				groups = append(groups, p)
				rec(x, p)
			case *dataset:
				dims := make([]int, len(x.dims))
				for i, d := range x.dims {
					dims[i] = int(d)
				}
				c := reflect.MakeSlice(x.data.Type(), x.data.Len(), x.data.Len())
				reflect.Copy(c, x.data)
				out[p] = FakeEntry{Dims: dims, Values: c.Interface()}
			}
		}
	}
	rec(fd.root, "")
	sort.Strings(groups)
	return out, groups
}

// FakeExists reports whether the file is known.
func FakeExists(file string) bool { _, ok := registry[file]; return ok }

// FakeWrites returns (a copy of) the log of dataset writes since the last reset / FakeClearWrites.
func FakeWrites() []WriteRecord { return append([]WriteRecord{}, writeLog...) }

func FakeClearWrites() { writeLog = nil }
