package main

import (
	"fmt"

	"github.com/flowmatters/openwater-core/data"
	"github.com/flowmatters/openwater-core/io"
	"gonum.org/v1/hdf5"
)

func main() {
	fn := "/verif/.build/h5smoke.h5"
	hdf5.FakeReset()
	a := data.ARangeFloat64(12).MustReshape([]int{3, 4})
	ref := io.H5RefFloat64{Filename: fn, Dataset: "/g/d"}
	fmt.Println("write", ref.Write(a))
	b, err := ref.Load()
	fmt.Println("load", err, b.Shape(), b.Unroll())
	ref.Slice = [][]int{{0, 3, 2}, nil}
	c, err := ref.Load()
	fmt.Println("subset", err, c.Shape(), c.Unroll())
	fmt.Println(ref.Exists(), io.H5RefFloat64{Filename: fn, Dataset: "/g/nope"}.Exists())
	hdf5.FakeReset()
}
