package main

import (
	"fmt"

	"owverif.local/verif/mrun"
	"owverif.local/verif/tables"
)

func main() {
	have := map[string]bool{}
	for _, t := range tables.All() {
		have[t.Model] = true
	}
	for _, n := range mrun.Names() {
		if !have[n] {
			fmt.Println("MISSING table for", n)
		}
	}
	fmt.Println(len(mrun.Names()), "models,", len(have), "tables")
}
