package main

import (
	"fmt"
	"os"

	"owverif.local/verif/checks/c01"
	"owverif.local/verif/checks/c04"
	"owverif.local/verif/checks/c05"
	"owverif.local/verif/checks/c06"
	"owverif.local/verif/checks/c08"
	"owverif.local/verif/checks/c09"
	"owverif.local/verif/checks/c10"
	"owverif.local/verif/checks/c11"
	"owverif.local/verif/checks/c12"
	"owverif.local/verif/checks/c13"
	"owverif.local/verif/checks/c14"
	"owverif.local/verif/checks/c15"
	"owverif.local/verif/checks/c16"
	"owverif.local/verif/checks/c17"
	"owverif.local/verif/checks/c18"
	"owverif.local/verif/checks/c19"
	"owverif.local/verif/checks/c20"
	"owverif.local/verif/vf"
)

var registry = map[string]func() *vf.Check{
	"C01": c01.SpecC01,
	"C02": c01.SpecC02,
	"C03": c01.SpecC03,
	"C04": c04.Spec,
	"C05": c05.Spec,
	"C06": c06.Spec,
	"C08": c08.Spec,
	"C09": c09.Spec,
	"C10": c10.Spec,
	"C11": c11.Spec,
	"C12": c12.Spec,
	"C13": c13.Spec,
	"C14": c14.Spec,
	"C15": c15.Spec,
	"C16": c16.Spec,
	"C17": c17.Spec,
	"C18": c18.Spec,
	"C19": c19.Spec,
	"C20": c20.Spec,
}

func main() {
	if len(os.Args) < 2 {
		fmt.Fprintln(os.Stderr, "usage: owcheck <property-id> [--tier quick|thorough] [--replay file] [--case i]")
		os.Exit(2)
	}
	id := os.Args[1]
	f := registry[id]
	if f == nil {
		fmt.Fprintln(os.Stderr, "unknown check", id)
		os.Exit(2)
	}
	vf.Main(f(), os.Args[2:])
}
