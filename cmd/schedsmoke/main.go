package main

import (
	"fmt"
	"os"
	"runtime/pprof"
	"time"

	"owverif.local/verif/sched"
	"owverif.local/verif/vrt"
)

func main() {
	go func() {
		time.Sleep(3 * time.Second)
		pprof.Lookup("goroutine").WriteTo(os.Stderr, 2)
		os.Exit(9)
	}()
	var counter, final int
	h := &sched.Harness{
		Reset: func() { counter = 0 },
		Body: func() {
			done := vrt.MakeChanInt(0)
			for i := 0; i < 2; i++ {
				vrt.Go(func() {
					v := counter
					vrt.Sleep(0)
					counter = v + 1
					done.Send(1)
				})
			}
			done.Recv()
			done.Recv()
			final = counter
		},
		Observe: func(r vrt.Result) sched.Outcome { return sched.Outcome{Key: fmt.Sprint(final)} },
	}
	st := (&sched.Explorer{Bound: -1}).Explore(h)
	fmt.Println(st.Executions, st.Outcomes, st.Races, st.Problems)
}
