module owverif.local/verif

go 1.23

require (
	github.com/flowmatters/openwater-core v0.0.0
	gonum.org/v1/hdf5 v0.0.0-20210714002203-8c5d23bc6946
	gopkg.in/yaml.v2 v2.2.2
)

require github.com/joelrahman/genny v0.0.0-20190825034740-e87a679b6495 // indirect

replace github.com/flowmatters/openwater-core => /repo

replace gonum.org/v1/hdf5 => ./fakehdf5
