package seqx

import (
	"fmt"
)

// verify compares every view on the path, the whole root storage and the guard zones with the model.
func (e *explorer[T, A]) verify(chain []Op, w *world[T, A], when string) bool {
	raw := w.root.Raw()
	for i, x := range raw {
		if x != w.mroot.vals[i] {
			e.fail("storage-differs-from-model/"+when, chain, fmt.Sprintf("%s: storage element %d is %v, the addressed-elements model says %v", when, i, x, w.mroot.vals[i]),
				map[string]interface{}{"storage": raw, "model_storage": w.mroot.vals})
			return false
		}
	}
	if !w.root.Guard() {
		e.fail("write-outside-buffer/"+when, chain, when+": a guard element next to the storage was overwritten", nil)
		return false
	}
	for vi := range w.views {
		v, m := w.views[vi], w.models[vi]
		if !sameInts(v.Shape(), m.shape) {
			e.fail("shape-differs/"+when, chain, fmt.Sprintf("%s: view %d has shape %v, model %v", when, vi, v.Shape(), m.shape), nil)
			return false
		}
		n := product(m.shape)
		for k := 0; k < n; k++ {
			idx := unrank(k, m.shape)
			var got T
			if p := try(func() { got = v.Get(idx) }); p != nil {
				e.fail("get-panics/"+when, chain, fmt.Sprintf("%s: Get(%v) on view %d panicked: %v", when, idx, vi, p.v), nil)
				return false
			}
			e.st.Reads++
			if want := m.get(idx); got != want {
				which := "the view itself"
				if vi < len(w.views)-1 {
					which = fmt.Sprintf("ancestor view %d of %d", vi, len(w.views)-1)
				}
				e.fail("element-differs/"+when, chain, fmt.Sprintf("%s: %s element %v is %v, model (loc + i*step of the parent) says %v", when, which, idx, got, want),
					map[string]interface{}{"view_index": vi, "index": idx, "got": got, "want": want, "model_values": m.values()})
				return false
			}
		}
	}
	return true
}

// checkState checks a state twice: on freshly derived views, and on views whose every ancestor (and the view itself)
// answered the read-only queries first (order-of-queries independence).
func (e *explorer[T, A]) checkState(chain []Op) {
	for _, obs := range []bool{false, true} {
		e.obs = obs
		before := len(e.fails)
		e.checkStateOnce(chain)
		e.obs = false
		if len(e.fails) > before {
			return
		}
		e.st.StateChecks++
	}
}

func (e *explorer[T, A]) checkStateOnce(chain []Op) {
	w, err := build(e.be, e.root, chain, e.obs)
	if err != nil {
		e.fail("cannot-rebuild-state", chain, err.Error(), nil)
		return
	}
	if !e.verify(chain, w, "read") {
		return
	}
	v, m := w.views[len(w.views)-1], w.models[len(w.models)-1]
	// rank-specific getters
	n := product(m.shape)
	for k := 0; k < n; k++ {
		idx := unrank(k, m.shape)
		var got T
		ok := false
		switch len(m.shape) {
		case 1:
			if g, is := any(v).(interface{ Get1(int) T }); is {
				got, ok = g.Get1(idx[0]), true
			}
		case 2:
			if g, is := any(v).(interface{ Get2(int, int) T }); is {
				got, ok = g.Get2(idx[0], idx[1]), true
			}
		case 3:
			if g, is := any(v).(interface{ Get3(int, int, int) T }); is {
				got, ok = g.Get3(idx[0], idx[1], idx[2]), true
			}
		}
		if ok && got != m.get(idx) {
			e.fail(fmt.Sprintf("get%d-differs", len(m.shape)), chain, fmt.Sprintf("Get%d%v = %v, model %v", len(m.shape), idx, got, m.get(idx)), nil)
			return
		}
	}
	if e.opt.Reshape {
		if !e.checkBulk(chain, w) {
			return
		}
	}
	if e.opt.Writes && (e.opt.WriteDepth == 0 || len(chain) < e.opt.WriteDepth) {
		if !e.checkWrites(chain, m) {
			return
		}
	}
	if e.opt.WritePairs {
		e.checkWritePairs(chain, w)
	}
}

// ---------------------------------------------------------------------------------------------
// writes (C01)

type wop[T Number, A ND[T, A]] struct {
	name string
	kind string
	run  func(v A, m *mview[T])
}

// source arrays of a given shape: contiguous, stepped (every second element of the last dimension of a
// wider array) and row-gapped (unit-step window of a wider array).
func (e *explorer[T, A]) sources(shape []int, base int) []struct {
	name string
	arr  A
	vals []T
} {
	var out []struct {
		name string
		arr  A
		vals []T
	}
	n := product(shape)
	vals := make([]T, n)
	for i := range vals {
		vals[i] = T(base + i)
	}
	out = append(out, struct {
		name string
		arr  A
		vals []T
	}{"contiguous-source", e.be.New(vals, shape).Arr, vals})
	if n == 0 {
		return out
	}
	last := len(shape) - 1
	// stepped
	wide := cp(shape)
	wide[last] = shape[last]*2 + 1
	wv := make([]T, product(wide))
	for i := range wv {
		wv[i] = T(base + 100 + i)
	}
	step := make([]int, len(shape))
	for i := range step {
		step[i] = 1
	}
	step[last] = 2
	loc := make([]int, len(shape))
	loc[last] = 1
	sv := e.be.New(wv, wide).Arr.Slice(cp(loc), cp(shape), cp(step))
	out = append(out, struct {
		name string
		arr  A
		vals []T
	}{"stepped-source", sv, modelValues(wv, wide, loc, shape, step)})
	// row gapped
	wide2 := cp(shape)
	wide2[last] = shape[last] + 2
	wv2 := make([]T, product(wide2))
	for i := range wv2 {
		wv2[i] = T(base + 300 + i)
	}
	loc2 := make([]int, len(shape))
	loc2[last] = 1
	gv := e.be.New(wv2, wide2).Arr.Slice(cp(loc2), cp(shape), nil)
	out = append(out, struct {
		name string
		arr  A
		vals []T
	}{"row-gapped-source", gv, modelValues(wv2, wide2, loc2, shape, nil)})
	// the other back-end (a Go-native source for a C-backed destination and the other way round): contiguous and stepped
	if e.be.Alt != nil {
		av := make([]T, n)
		for i := range av {
			av[i] = T(base + 50 + i)
		}
		out = append(out, struct {
			name string
			arr  A
			vals []T
		}{"other-backend-contiguous-source", e.be.Alt(av, shape).Arr, av})
		wv3 := make([]T, product(wide))
		for i := range wv3 {
			wv3[i] = T(base + 150 + i)
		}
		out = append(out, struct {
			name string
			arr  A
			vals []T
		}{"other-backend-stepped-source", e.be.Alt(wv3, wide).Arr.Slice(cp(loc), cp(shape), cp(step)), modelValues(wv3, wide, loc, shape, step)})
	}
	return out
}

func modelValues[T Number](store []T, rootShape, loc, dims, step []int) []T {
	offs := make([]int, len(store))
	for i := range offs {
		offs[i] = i
	}
	m := &mview[T]{st: &mstore[T]{vals: store}, shape: rootShape, offs: offs}
	return m.slice(loc, dims, step).values()
}

func (e *explorer[T, A]) writeOps(m *mview[T]) []wop[T, A] {
	var ops []wop[T, A]
	shape := m.shape
	nd := len(shape)
	n := product(shape)
	for _, idx := range e.positions(shape) {
		idx := idx
		k := rank(idx, shape)
		val := T(200 + k%50)
		ops = append(ops, wop[T, A]{fmt.Sprintf("Set(%v)", idx), "Set", func(v A, mm *mview[T]) { v.Set(cp(idx), val); mm.set(idx, val) }})
		switch nd {
		case 1:
			ops = append(ops, wop[T, A]{fmt.Sprintf("Set1(%d)", idx[0]), "Set1", func(v A, mm *mview[T]) {
				any(v).(interface{ Set1(int, T) }).Set1(idx[0], val+1)
				mm.set(idx, val+1)
			}})
		case 2:
			ops = append(ops, wop[T, A]{fmt.Sprintf("Set2(%d,%d)", idx[0], idx[1]), "Set2", func(v A, mm *mview[T]) {
				any(v).(interface{ Set2(int, int, T) }).Set2(idx[0], idx[1], val+1)
				mm.set(idx, val+1)
			}})
		case 3:
			ops = append(ops, wop[T, A]{fmt.Sprintf("Set3(%v)", idx), "Set3", func(v A, mm *mview[T]) {
				any(v).(interface{ Set3(int, int, int, T) }).Set3(idx[0], idx[1], idx[2], val+1)
				mm.set(idx, val+1)
			}})
		}
		// Apply along every dimension from this position
		for d := 0; d < nd; d++ {
			for _, step := range []int{1, 2} {
				for _, L := range e.axisLens(shape[d], idx[d], step) {
					if L == 1 && step == 2 {
						continue
					}
					d, step, L := d, step, L
					vals := make([]T, L)
					for j := range vals {
						vals[j] = T(120 + j)
					}
					ops = append(ops, wop[T, A]{fmt.Sprintf("Apply(%v,dim=%d,step=%d,len=%d)", idx, d, step, L), "Apply", func(v A, mm *mview[T]) {
						loc := cp(idx)
						v.Apply(loc, d, step, append([]T{}, vals...))
						if !sameInts(loc, idx) {
							panic(fmt.Sprintf("Apply changed its loc argument to %v", loc))
						}
						for j := range vals {
							p := cp(idx)
							p[d] += j * step
							mm.set(p, vals[j])
						}
					}})
					if nd == 1 {
						ops = append(ops, wop[T, A]{fmt.Sprintf("Apply1(%d,step=%d,len=%d)", idx[0], step, L), "Apply1", func(v A, mm *mview[T]) {
							any(v).(interface{ Apply1(int, int, []T) }).Apply1(idx[0], step, append([]T{}, vals...))
							for j := range vals {
								mm.set([]int{idx[0] + j*step}, vals[j])
							}
						}})
					}
				}
			}
		}
		// ApplySlice: every block anchored here, step nil / all ones / 2 in one dimension
		var stepVariants [][]int
		stepVariants = append(stepVariants, nil)
		ones := make([]int, nd)
		for i := range ones {
			ones[i] = 1
		}
		stepVariants = append(stepVariants, ones)
		for d := 0; d < nd; d++ {
			s := cp(ones)
			s[d] = 2
			stepVariants = append(stepVariants, s)
		}
		for _, sv := range stepVariants {
			sv := sv
			// all block shapes that fit
			blocks := [][]int{{}}
			for d := 0; d < nd; d++ {
				s := 1
				if sv != nil {
					s = sv[d]
				}
				var next [][]int
				for _, b := range blocks {
					for _, L := range e.axisLens(shape[d], idx[d], s) {
						next = append(next, append(append([]int{}, b...), L))
					}
				}
				blocks = next
			}
			for _, b := range blocks {
				b := b
				if sv != nil {
					// a step of 2 only matters when the block is longer than 1 in that dimension
					skip := false
					for d := range b {
						if sv[d] == 2 && b[d] == 1 {
							skip = true
						}
					}
					if skip {
						continue
					}
				}
				ops = append(ops, wop[T, A]{fmt.Sprintf("ApplySlice(%v,step=%v,block=%v)", idx, sv, b), "ApplySlice", func(v A, mm *mview[T]) {
					for _, src := range e.sources(b, 500) {
						v.ApplySlice(cp(idx), cp(sv), src.arr)
						nbk := product(b)
						for k := 0; k < nbk; k++ {
							i := unrank(k, b)
							p := cp(idx)
							for d := range i {
								s := 1
								if sv != nil {
									s = sv[d]
								}
								p[d] += i[d] * s
							}
							mm.set(p, src.vals[k])
						}
					}
				}})
			}
		}
	}
	// CopyFrom
	if n > 0 {
		ops = append(ops, wop[T, A]{"CopyFrom", "CopyFrom", func(v A, mm *mview[T]) {
			for _, src := range e.sources(shape, 800) {
				v.CopyFrom(src.arr)
				for k := 0; k < n; k++ {
					mm.set(unrank(k, shape), src.vals[k])
				}
			}
		}})
	}
	// CopyFrom of a smaller source (it fills the leading corner: element idx of the source goes to element idx)
	if n > 0 {
		for _, which := range []string{"last", "first", "all"} {
			small := cp(shape)
			changed := false
			for d := range small {
				if small[d] > 1 && (which == "all" || (which == "last" && d == len(small)-1) || (which == "first" && d == 0)) {
					small[d]--
					changed = true
				}
			}
			if !changed {
				continue
			}
			ops = append(ops, wop[T, A]{fmt.Sprintf("CopyFrom(smaller source %v)", small), "CopyFrom-smaller", func(v A, mm *mview[T]) {
				for _, src := range e.sources(small, 900) {
					v.CopyFrom(src.arr)
					for k := 0; k < product(small); k++ {
						mm.set(unrank(k, small), src.vals[k])
					}
				}
			}})
		}
	}
	return ops
}

func (e *explorer[T, A]) checkWrites(chain []Op, m0 *mview[T]) bool {
	for _, op := range e.writeOps(m0) {
		w, err := build(e.be, e.root, chain, e.obs)
		if err != nil {
			return false
		}
		v, m := w.views[len(w.views)-1], w.models[len(w.models)-1]
		e.st.Writes++
		if p := try(func() { op.run(v, m) }); p != nil {
			e.fail("write-panics/"+op.kind, chain, fmt.Sprintf("%s panicked: %v", op.name, p.v), map[string]interface{}{"write": op.name})
			return false
		}
		if !e.verify(chain, w, "after-"+op.kind) {
			if f := e.lastFail(); f != nil {
				f.Detail["write"] = op.name
				f.What += " [write: " + op.name + "]"
			}
			return false
		}
	}
	// every ordered pair of writes through the SAME view object (a view must not remember anything of the write before):
	// for the root and its direct slices of the small roots
	if e.opt.OpPairs && len(chain) <= 1 && product(e.root) <= 12 {
		ops := e.writeOps(m0)
		for _, a := range ops {
			for _, b := range ops {
				w, err := build(e.be, e.root, chain, e.obs)
				if err != nil {
					return false
				}
				v, m := w.views[len(w.views)-1], w.models[len(w.models)-1]
				e.st.WritePairs++
				if p := try(func() { a.run(v, m); b.run(v, m) }); p != nil {
					e.fail("write-pair-panics/"+a.kind+"+"+b.kind, chain, fmt.Sprintf("%s then %s through the same view panicked: %v", a.name, b.name, p.v), nil)
					return false
				}
				if !e.verify(chain, w, "after-"+a.kind+"-then-"+b.kind+"-through-the-same-view") {
					if f := e.lastFail(); f != nil {
						f.Detail["writes"] = []string{a.name, b.name}
						f.What += " [writes: " + a.name + " then " + b.name + "]"
					}
					return false
				}
			}
		}
	}
	return true
}

func (e *explorer[T, A]) lastFail() *Failure {
	var last *Failure
	for _, f := range e.fails {
		if _, has := f.Detail["write"]; !has {
			last = f
		}
	}
	return last
}

// two writes through two views of the chain, both orders
func (e *explorer[T, A]) checkWritePairs(chain []Op, w0 *world[T, A]) {
	nv := len(w0.views)
	for i := 0; i < nv; i++ {
		for j := i; j < nv; j++ {
			ni, nj := product(w0.models[i].shape), product(w0.models[j].shape)
			for a := 0; a < ni; a++ {
				for b := 0; b < nj; b++ {
					for order := 0; order < 2; order++ {
						w, err := build(e.be, e.root, chain, e.obs)
						if err != nil {
							return
						}
						ia, ib := unrank(a, w.models[i].shape), unrank(b, w.models[j].shape)
						first := func() { w.views[i].Set(cp(ia), T(61)); w.models[i].set(ia, T(61)) }
						second := func() { w.views[j].Set(cp(ib), T(62)); w.models[j].set(ib, T(62)) }
						if order == 1 {
							first, second = second, first
						}
						e.st.WritePairs++
						if p := try(func() { first(); second() }); p != nil {
							e.fail("write-pair-panics", chain, fmt.Sprintf("Set through views %d,%d panicked: %v", i, j, p.v), nil)
							return
						}
						if !e.verify(chain, w, "after-write-pair") {
							return
						}
					}
				}
			}
		}
	}
}

// ---------------------------------------------------------------------------------------------
// bulk operations (C02)

func (e *explorer[T, A]) checkBulk(chain []Op, w *world[T, A]) bool {
	v, m := w.views[len(w.views)-1], w.models[len(w.models)-1]
	n := product(m.shape)
	e.st.BulkOps++
	contig := m.contiguous()
	if got := v.Contiguous(); got != contig {
		e.fail("contiguous-wrong", chain, fmt.Sprintf("Contiguous() = %v but the elements %s adjacent in storage (offsets %v)", got, map[bool]string{true: "are", false: "are not"}[contig], m.offs), map[string]interface{}{"offsets": m.offs})
		return false
	}
	// Unroll
	var u []T
	if p := try(func() { u = v.Unroll() }); p != nil {
		e.fail("unroll-panics", chain, fmt.Sprintf("Unroll panicked: %v", p.v), nil)
		return false
	}
	want := m.values()
	if len(u) != len(want) {
		e.fail("unroll-length", chain, fmt.Sprintf("Unroll has %d elements, view has %d", len(u), len(want)), nil)
		return false
	}
	for i := range u {
		if u[i] != want[i] {
			e.fail("unroll-values", chain, fmt.Sprintf("Unroll()[%d] = %v, row-major element is %v", i, u[i], want[i]), map[string]interface{}{"unroll": u, "want": want})
			return false
		}
	}
	if n > 0 {
		// max / min
		mx, mn := want[0], want[0]
		for _, x := range want {
			if x > mx {
				mx = x
			}
			if x < mn {
				mn = x
			}
		}
		if g := v.Maximum(); g != mx {
			e.fail("maximum-wrong", chain, fmt.Sprintf("Maximum() = %v, want %v", g, mx), nil)
			return false
		}
		if g := v.Minimum(); g != mn {
			e.fail("minimum-wrong", chain, fmt.Sprintf("Minimum() = %v, want %v", g, mn), nil)
			return false
		}
		// aliasing of Unroll for Go-backed contiguous views; a copy otherwise
		if e.be.GoBacked {
			first, last := unrank(0, m.shape), unrank(n-1, m.shape)
			u[0] = T(77)
			got := v.Get(first)
			if contig {
				if got != T(77) {
					e.fail("unroll-of-contiguous-view-does-not-alias", chain, "writing through the slice returned by Unroll is not visible in the array", nil)
					return false
				}
				m.set(first, T(77))
				v.Set(last, T(78))
				m.set(last, T(78))
				if u[n-1] != T(78) {
					e.fail("unroll-of-contiguous-view-does-not-alias", chain, "a Set on the array is not visible through the slice returned by Unroll", nil)
					return false
				}
			} else if got == T(77) {
				e.fail("unroll-of-non-contiguous-view-aliases", chain, "writing through the slice returned by Unroll of a non-contiguous view changed the array", nil)
				return false
			}
			if !e.verify(chain, w, "after-unroll-alias-test") {
				return false
			}
		}
	}
	// a view object must not remember what it gathered: Unroll, Reshape and use as a source again, after the storage
	// changed by a route other than the view's own Set (through the root array; by CopyFrom into the view)
	if n > 0 {
		for _, route := range []string{"root-Set", "CopyFrom-into-the-view"} {
			w3, err := build(e.be, e.root, chain, e.obs)
			if err != nil {
				return false
			}
			v3, m3 := w3.views[len(w3.views)-1], w3.models[len(w3.models)-1]
			if route == "root-Set" && m3.st != w3.mroot {
				continue // the chain went through a copying Reshape: this view no longer shares the root's storage
			}
			var stale string
			if p := try(func() {
				_ = v3.Unroll()
				_, _ = v3.Reshape([]int{n})
				if route == "root-Set" {
					for _, k := range []int{0, n - 1} {
						off := m3.offs[k]
						w3.root.Arr.Set(unrank(off, e.root), T(91+k%2))
						w3.mroot.vals[off] = T(91 + k%2)
					}
				} else {
					src := e.sources(m3.shape, 40)[0]
					v3.CopyFrom(src.arr)
					for k := 0; k < n; k++ {
						m3.set(unrank(k, m3.shape), src.vals[k])
					}
				}
				want := m3.values()
				u := v3.Unroll()
				r, rerr := v3.Reshape([]int{n})
				zero := make([]T, n)
				dst := e.be.New(zero, m3.shape).Arr
				dst.CopyFrom(v3)
				for k := 0; k < n && stale == ""; k++ {
					if u[k] != want[k] {
						stale = fmt.Sprintf("second Unroll()[%d] = %v, the view now holds %v", k, u[k], want[k])
					} else if rerr == nil && r.Get([]int{k}) != want[k] {
						stale = fmt.Sprintf("second Reshape([%d]) element %d = %v, the view now holds %v", n, k, r.Get([]int{k}), want[k])
					} else if g := dst.Get(unrank(k, m3.shape)); g != want[k] {
						stale = fmt.Sprintf("CopyFrom(view) delivered %v for element %d, the view now holds %v", g, k, want[k])
					}
				}
			}); p != nil {
				e.fail("reuse-after-write-panics/"+route, chain, fmt.Sprintf("Unroll/Reshape, %s, Unroll/Reshape again panicked: %v", route, p.v), nil)
				return false
			}
			if stale != "" {
				e.fail("view-remembers-old-contents/"+route, chain, "after "+route+": "+stale, nil)
				return false
			}
			if !e.verify(chain, w3, "after-reuse-after-"+route) {
				return false
			}
		}
	}
	// ReshapeFast fails exactly on non-contiguous views
	flat := []int{n}
	_, ferr := v.ReshapeFast(cp(flat))
	if (ferr != nil) != !contig {
		e.fail("reshapefast-error-wrong", chain, fmt.Sprintf("ReshapeFast error=%v but contiguous=%v", ferr, contig), nil)
		return false
	}
	// Reshape fails exactly when the counts differ; MustReshape panics exactly then
	for _, bad := range [][]int{{n + 1}, {n + 1, 2}, {2, n + 1}} {
		if _, err := v.Reshape(cp(bad)); err == nil {
			e.fail("reshape-accepts-different-count", chain, fmt.Sprintf("Reshape(%v) of a %d-element view succeeded", bad, n), nil)
			return false
		}
		if p := try(func() { v.MustReshape(cp(bad)) }); p == nil {
			e.fail("mustreshape-does-not-panic", chain, fmt.Sprintf("MustReshape(%v) of a %d-element view did not panic", bad, n), nil)
			return false
		}
	}
	for _, good := range factorisations(n, 4) {
		var r A
		var err error
		if p := try(func() { r, err = v.Reshape(cp(good)) }); p != nil || err != nil {
			e.fail("reshape-same-count-fails", chain, fmt.Sprintf("Reshape(%v): err=%v panic=%v", good, err, p), nil)
			return false
		}
		if p := try(func() { v.MustReshape(cp(good)) }); p != nil {
			e.fail("mustreshape-panics-on-same-count", chain, fmt.Sprintf("MustReshape(%v) panicked: %v", good, p.v), nil)
			return false
		}
		if !sameInts(r.Shape(), good) {
			e.fail("reshape-shape-wrong", chain, fmt.Sprintf("Reshape(%v) has shape %v", good, r.Shape()), nil)
			return false
		}
		now := m.values()
		for k := 0; k < n; k++ {
			var got T
			idx := unrank(k, good)
			if p := try(func() { got = r.Get(idx) }); p != nil {
				e.fail("reshape-get-panics", chain, fmt.Sprintf("Reshape(%v).Get(%v) panicked: %v", good, idx, p.v), nil)
				return false
			}
			if got != now[k] {
				e.fail("reshape-values-not-row-major", chain, fmt.Sprintf("Reshape(%v) element %v = %v, row-major element %d of the view is %v", good, idx, got, k, now[k]), map[string]interface{}{"reshape": good, "want": now})
				return false
			}
		}
	}
	// two-array operations with this view as destination
	if e.opt.BulkPairs && n > 0 && e.be.AddTo != nil {
		type bop struct {
			name string
			run  func(dest, src A)
			ref  func(d, s T) T
		}
		bops := []bop{
			{"AddToArray", func(d, s A) { e.be.AddTo(d, s) }, func(d, s T) T { return d + s }},
			{"ScaleArray", func(d, s A) { e.be.Scale(d, s, T(3)) }, func(d, s T) T { return s * T(3) }},
			{"ScaleArray(1)", func(d, s A) { e.be.Scale(d, s, T(1)) }, func(d, s T) T { return s }}, // neutral factors still copy source to destination
			{"ScaleArray(0)", func(d, s A) { e.be.Scale(d, s, T(0)) }, func(d, s T) T { return T(0) }},
			{"ApplyFunc1(identity)", func(d, s A) { e.be.Func1(d, s, func(x T) T { return x }) }, func(d, s T) T { return s }},
			{"ApplyFunc1", func(d, s A) { e.be.Func1(d, s, func(x T) T { return x + T(5) }) }, func(d, s T) T { return s + T(5) }},
		}
		for _, bo := range bops {
			nsrc := len(e.sources(m.shape, 30))
			for si := 0; si <= nsrc; si++ {
				w2, err := build(e.be, e.root, chain, e.obs)
				if err != nil {
					return false
				}
				v2, m2 := w2.views[len(w2.views)-1], w2.models[len(w2.models)-1]
				var src A
				var svals []T
				sname := "self"
				if si < nsrc {
					s := e.sources(m2.shape, 30)[si]
					src, svals, sname = s.arr, s.vals, s.name
				} else {
					src, svals = v2, m2.values()
				}
				e.st.BulkOps++
				if p := try(func() { bo.run(v2, src) }); p != nil {
					e.fail("bulk-op-panics/"+bo.name, chain, fmt.Sprintf("%s(dest=view, src=%s) panicked: %v", bo.name, sname, p.v), nil)
					return false
				}
				for k := 0; k < n; k++ {
					idx := unrank(k, m2.shape)
					m2.set(idx, bo.ref(m2.get(idx), svals[k]))
				}
				cls := fmt.Sprintf("%s/dest-%s/%s", bo.name, map[bool]string{true: "contiguous", false: "non-contiguous"}[contig], sname)
				if !e.verify(chain, w2, "after-"+cls) {
					return false
				}
				if si < nsrc {
					// the source must be unchanged
					for k := 0; k < n; k++ {
						if src.Get(unrank(k, m2.shape)) != svals[k] {
							e.fail("bulk-op-modifies-source/"+bo.name, chain, fmt.Sprintf("%s changed its source (%s)", bo.name, sname), nil)
							return false
						}
					}
				}
			}
		}
	}
	return true
}
