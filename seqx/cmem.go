package seqx

// #include <stdlib.h>
import "C"

import "unsafe"

// cAlloc returns n bytes of zeroed memory from the C heap: the C-backed arrays are meant to wrap memory the Go
// runtime does not manage (a caller's buffer), and the garbage collector must not be asked to interpret pointers into it.
func cAlloc(n uintptr) unsafe.Pointer { return C.calloc(1, C.size_t(n)) }

func cFree(p unsafe.Pointer) { C.free(p) }
