package seqx

// #include <stdlib.h>
import "C"

import (
	"sync"
	"unsafe"
)

// The C-backed arrays are meant to wrap memory the Go runtime does not manage (a caller's buffer), and the garbage
// collector must not be asked to interpret pointers into it: the buffers come from calloc. Views and sources outlive
// the harness object that created the buffer, so nothing is freed by finalizers; the explorer frees everything
// allocated so far at a point where no array of an earlier state is referenced any more (ReleaseC, once per state).
var (
	cmu    sync.Mutex
	cblock []unsafe.Pointer
)

func cAlloc(n uintptr) unsafe.Pointer {
	p := C.calloc(1, C.size_t(n))
	if p == nil {
		panic("seqx: calloc failed")
	}
	cmu.Lock()
	cblock = append(cblock, p)
	cmu.Unlock()
	return p
}

// ReleaseC frees every buffer handed out by cAlloc so far.
func ReleaseC() {
	cmu.Lock()
	for _, p := range cblock {
		C.free(p)
	}
	cblock = cblock[:0]
	cmu.Unlock()
}
