// Package seqx: explicit-state search over operation sequences of the n-dimensional array API, in
// lock-step with a boring reference model (a flat store plus, per view, the explicit list of storage
// offsets in row-major order - no stride algebra).
//
// A state is a view reached by a chain of Slice / Reshape operations from a root array. States are
// deduplicated by the IMPLEMENTATION's private representation (Start, Dims, OriginalDims, Offset, Step,
// OffsetStep, storage identity), read by reflection, so two histories merge only when the implementation
// itself cannot tell them apart. BFS by depth; the search reports whether the frontier emptied (fixpoint).
package seqx

import (
	"fmt"
	"reflect"
	"sort"
	"strings"
)

type Number interface {
	~float64 | ~float32 | ~int32 | ~uint32 | ~int64 | ~uint64 | ~int | ~uint
}

// ND is the generated array interface, abstracted over element type T and the concrete interface A.
type ND[T Number, A any] interface {
	Len(axis int) int
	Shape() []int
	NDims() int
	NewIndex(val int) []int
	Get(loc []int) T
	Set(loc []int, val T)
	Slice(loc []int, dims []int, step []int) A
	Apply(loc []int, dim int, step int, vals []T)
	ApplySlice(loc []int, step []int, vals A)
	CopyFrom(other A)
	Contiguous() bool
	Unroll() []T
	Reshape(newShape []int) (A, error)
	MustReshape(newShape []int) A
	ReshapeFast(newShape []int) (A, error)
	Maximum() T
	Minimum() T
}

// Root is a freshly built root array over storage the harness owns.
type Root[T Number, A any] struct {
	Arr   A
	Raw   func() []T  // snapshot of the whole payload storage, in storage order
	Guard func() bool // canaries around the storage intact
	Base  uintptr     // address of storage element 0
	Elem  uintptr     // element size in storage
}

// Backend builds roots and binds the per-type free functions.
type Backend[T Number, A ND[T, A]] struct {
	Name     string // "go" | "c"
	Type     string // element type name
	GoBacked bool
	New      func(vals []T, dims []int) *Root[T, A]
	Alt      func(vals []T, dims []int) *Root[T, A] // the same element type on the other back-end (sources of mixed two-array operations); may be nil
	Scale    func(dest, src A, k T)                 // nil when not generated for T
	AddTo    func(dest, src A)                      // nil when not generated for T
	Func1    func(dest, src A, fn func(T) T)        // nil when not generated for T
}

// Op is one transition.
type Op struct {
	Kind  string `json:"op"` // slice | reshape
	Loc   []int  `json:"loc,omitempty"`
	Dims  []int  `json:"dims,omitempty"`
	Step  []int  `json:"step,omitempty"`
	Shape []int  `json:"shape,omitempty"`
}

func (o Op) String() string {
	if o.Kind == "slice" {
		return fmt.Sprintf("Slice(%v,%v,%v)", o.Loc, o.Dims, o.Step)
	}
	return fmt.Sprintf("Reshape(%v)", o.Shape)
}

// ---------------------------------------------------------------------------------------------
// reference model

type mstore[T Number] struct{ vals []T }

type mview[T Number] struct {
	st    *mstore[T]
	shape []int
	offs  []int // storage offset of every element, row-major
}

func product(s []int) int {
	p := 1
	for _, v := range s {
		p *= v
	}
	return p
}

// unrank: row-major index -> multi index
func unrank(k int, shape []int) []int {
	idx := make([]int, len(shape))
	for d := len(shape) - 1; d >= 0; d-- {
		if shape[d] > 0 {
			idx[d] = k % shape[d]
			k /= shape[d]
		}
	}
	return idx
}

func rank(idx, shape []int) int {
	k := 0
	for d := range shape {
		k = k*shape[d] + idx[d]
	}
	return k
}

func (v *mview[T]) get(idx []int) T    { return v.st.vals[v.offs[rank(idx, v.shape)]] }
func (v *mview[T]) set(idx []int, x T) { v.st.vals[v.offs[rank(idx, v.shape)]] = x }
func (v *mview[T]) values() []T {
	out := make([]T, len(v.offs))
	for i, o := range v.offs {
		out[i] = v.st.vals[o]
	}
	return out
}

// element i of slice(loc,dims,step) is element loc + i*step of the parent
func (v *mview[T]) slice(loc, dims, step []int) *mview[T] {
	n := product(dims)
	out := &mview[T]{st: v.st, shape: append([]int{}, dims...), offs: make([]int, n)}
	for k := 0; k < n; k++ {
		i := unrank(k, dims)
		p := make([]int, len(i))
		for d := range i {
			s := 1
			if step != nil {
				s = step[d]
			}
			p[d] = loc[d] + i[d]*s
		}
		out.offs[k] = v.offs[rank(p, v.shape)]
	}
	return out
}

func (v *mview[T]) contiguous() bool {
	for i := 1; i < len(v.offs); i++ {
		if v.offs[i] != v.offs[0]+i {
			return false
		}
	}
	return true
}

// reshape: aliases when the view is contiguous, copies otherwise
func (v *mview[T]) reshape(shape []int) *mview[T] {
	if v.contiguous() {
		return &mview[T]{st: v.st, shape: append([]int{}, shape...), offs: append([]int{}, v.offs...)}
	}
	st := &mstore[T]{vals: v.values()}
	offs := make([]int, len(st.vals))
	for i := range offs {
		offs[i] = i
	}
	return &mview[T]{st: st, shape: append([]int{}, shape...), offs: offs}
}

// ---------------------------------------------------------------------------------------------
// materialising a chain on the real code and on the model

type world[T Number, A ND[T, A]] struct {
	root   *Root[T, A]
	views  []A         // views[0] = root, views[i] = after chain[i-1]
	models []*mview[T] // same for the model
	mroot  *mstore[T]
}

func rootVals[T Number](n int) []T {
	v := make([]T, n)
	for i := range v {
		v[i] = T(10 + i) // distinct, representable in every element type
	}
	return v
}

type panicErr struct{ v interface{} }

func try(f func()) (p *panicErr) {
	defer func() {
		if r := recover(); r != nil {
			p = &panicErr{r}
		}
	}()
	f()
	return nil
}

// observe runs the read-only queries on a view object before anything is derived from or written through it: a view's
// answers must not depend on what was asked of it (or of its parent) earlier.
func observe[T Number, A ND[T, A]](v A) {
	try(func() {
		v.Contiguous()
		v.Unroll()
		v.Maximum()
		v.ReshapeFast(v.Shape())
	})
}

func build[T Number, A ND[T, A]](be *Backend[T, A], rootShape []int, chain []Op, obs ...bool) (*world[T, A], error) {
	observed := len(obs) > 0 && obs[0]
	n := product(rootShape)
	w := &world[T, A]{root: be.New(rootVals[T](n), rootShape)}
	w.mroot = &mstore[T]{vals: rootVals[T](n)}
	offs := make([]int, n)
	for i := range offs {
		offs[i] = i
	}
	w.views = []A{w.root.Arr}
	w.models = []*mview[T]{{st: w.mroot, shape: append([]int{}, rootShape...), offs: offs}}
	for _, op := range chain {
		cur := w.views[len(w.views)-1]
		mcur := w.models[len(w.models)-1]
		var next A
		var err error
		if observed {
			observe[T, A](cur)
		}
		p := try(func() {
			switch op.Kind {
			case "slice":
				next = cur.Slice(cp(op.Loc), cp(op.Dims), cp(op.Step))
			case "reshape":
				next, err = cur.Reshape(cp(op.Shape))
			}
		})
		if p != nil {
			return nil, fmt.Errorf("%s panicked: %v", op, p.v)
		}
		if err != nil {
			return nil, fmt.Errorf("%s failed: %v", op, err)
		}
		w.views = append(w.views, next)
		if op.Kind == "slice" {
			w.models = append(w.models, mcur.slice(op.Loc, op.Dims, op.Step))
		} else {
			w.models = append(w.models, mcur.reshape(op.Shape))
		}
	}
	if observed {
		observe[T, A](w.views[len(w.views)-1])
	}
	return w, nil
}

func cp(a []int) []int {
	if a == nil {
		return nil
	}
	return append([]int{}, a...)
}

// privKey reads the implementation's private representation.
func privKey[T Number, A ND[T, A]](root *Root[T, A], v A) string {
	rv := reflect.ValueOf(v)
	for rv.Kind() == reflect.Interface || rv.Kind() == reflect.Ptr {
		rv = rv.Elem()
	}
	// every field of the view's private representation, whatever it is called (a field added by a later version of the
	// library makes the key finer, never coarser); pointers and storage slices are described by where they point
	// relative to the root's storage, never followed
	var b strings.Builder
	size := root.Elem * uintptr(len(root.Raw()))
	where := func(p uintptr) string {
		if p >= root.Base && p < root.Base+size+root.Elem {
			return fmt.Sprintf("root+%d", (p-root.Base)/root.Elem)
		}
		if p < root.Base && root.Base-p <= 64*root.Elem {
			return fmt.Sprintf("root-%d", (root.Base-p)/root.Elem)
		}
		return "elsewhere"
	}
	var describe func(name string, f reflect.Value, depth int)
	describe = func(name string, f reflect.Value, depth int) {
		switch f.Kind() {
		case reflect.Struct:
			if depth > 3 {
				return
			}
			for j := 0; j < f.NumField(); j++ {
				describe(name+f.Type().Field(j).Name+".", f.Field(j), depth+1)
			}
		case reflect.Ptr, reflect.UnsafePointer:
			fmt.Fprintf(&b, "%s=%s;", name, where(f.Pointer()))
		case reflect.Slice:
			if f.Type().Elem().Kind() == reflect.Int {
				fmt.Fprintf(&b, "%s=%v;", name, f)
			} else if f.Len() > 0 {
				w := where(f.Pointer())
				if w == "elsewhere" { // a private copy: its content is part of the state
					fmt.Fprintf(&b, "%s=copy%v;", name, f)
				} else {
					fmt.Fprintf(&b, "%s=%s,len=%d;", name, w, f.Len())
				}
			} else {
				fmt.Fprintf(&b, "%s=empty;", name)
			}
		case reflect.Bool, reflect.Int, reflect.Int8, reflect.Int16, reflect.Int32, reflect.Int64, reflect.Uint, reflect.Uint8, reflect.Uint16, reflect.Uint32, reflect.Uint64, reflect.Float32, reflect.Float64, reflect.String:
			fmt.Fprintf(&b, "%s=%v;", name, f)
		}
	}
	describe("", rv, 0)
	return b.String()
}

// ---------------------------------------------------------------------------------------------
// failures and statistics

type Failure struct {
	Sig    string
	What   string
	Detail map[string]interface{}
}

type Stats struct {
	States, Transitions, MaxDepth int
	FrontierEmpty                 bool
	Reads, Writes, WritePairs     int64
	BulkOps                       int64
	StatesPerDepth                []int
	UnexploredSuccessors          int
	StateChecks                   int // fresh + queried-first passes
}

type Options struct {
	MaxDepth    int
	Reshape     bool // reshape transitions + C02 observations
	Writes      bool // C01 write footprints
	WritePairs  bool
	OpPairs     bool // every ordered pair of write operations through the same view object (small roots, depth <= 1)
	BulkPairs   bool // two-array operations
	Steps       []int
	WriteDepth  int  // >0: write footprints only for chains of fewer than this many operations (deeper states: reads and bulk observations only); 0 = every state
	Coarse      bool // axes longer than 8: only a few start positions and the lengths around 16, 32 and 64 plus the full extent ("wide" roots that cross size thresholds of fast paths)
	MaxFailures int
	Prop        string // property id for signatures
}

type explorer[T Number, A ND[T, A]] struct {
	be    *Backend[T, A]
	root  []int
	opt   Options
	st    Stats
	fails map[string]*Failure
	obs   bool // views answer the read-only queries before use
}

func (e *explorer[T, A]) fail(clause string, chain []Op, what string, detail map[string]interface{}) {
	sig := fmt.Sprintf("%s/%s/%s-backed/%s", e.opt.Prop, clause, e.be.Name, chainClass(chain))
	if _, ok := e.fails[sig]; ok {
		return
	}
	if detail == nil {
		detail = map[string]interface{}{}
	}
	detail["element_type"], detail["backend"], detail["root_shape"], detail["chain"] = e.be.Type, e.be.Name, e.root, chainStrings(chain)
	if e.obs {
		clause += "/views-queried-first"
		sig = fmt.Sprintf("%s/%s/%s-backed/%s", e.opt.Prop, clause, e.be.Name, chainClass(chain))
		what = "(every view first answered Contiguous/Unroll/Maximum/ReshapeFast) " + what
		detail["views_queried_first"] = true
		if _, ok := e.fails[sig]; ok {
			return
		}
	}
	e.fails[sig] = &Failure{Sig: sig, What: fmt.Sprintf("%s %s-backed root %v, %s: %s", e.be.Type, e.be.Name, e.root, strings.Join(chainStrings(chain), "."), what), Detail: detail}
}

func chainStrings(c []Op) []string {
	out := make([]string, len(c))
	for i, o := range c {
		out[i] = o.String()
	}
	return out
}

// chainClass names the kind of chain (keeps signatures specific but stable).
func chainClass(chain []Op) string {
	slices, stepped, reshapes := 0, 0, 0
	steppedBefore := false // a stepped slice that is sliced again
	for _, o := range chain {
		if o.Kind == "slice" {
			if stepped > 0 {
				steppedBefore = true
			}
			slices++
			for _, s := range o.Step {
				if s > 1 {
					stepped++
					break
				}
			}
		} else {
			reshapes++
		}
	}
	switch {
	case len(chain) == 0:
		return "root"
	case reshapes > 0 && slices > 0:
		return "slice+reshape-chain"
	case reshapes > 0:
		return "reshape-chain"
	case steppedBefore:
		return "slice-of-stepped-slice"
	case stepped > 0:
		return "stepped-slice"
	case slices > 1:
		return "nested-unit-step-slices"
	}
	return "unit-step-slice"
}

// Explore runs the search for one backend and root shape.
func Explore[T Number, A ND[T, A]](be *Backend[T, A], rootShape []int, opt Options) (Stats, []*Failure) {
	if len(opt.Steps) == 0 {
		opt.Steps = []int{0, 1, 2, 3} // 0 = nil step vector
	}
	e := &explorer[T, A]{be: be, root: rootShape, opt: opt, fails: map[string]*Failure{}}
	type node struct {
		chain []Op
		depth int
	}
	seen := map[string]bool{}
	w0, err := build(be, rootShape, nil)
	if err != nil {
		e.fail("cannot-build-root", nil, err.Error(), nil)
		return e.st, e.list()
	}
	seen[privKey(w0.root, w0.views[0])] = true
	frontier := []node{{nil, 0}}
	unexplored := 0
	e.st.States = 1
	e.st.StatesPerDepth = []int{1}
	e.st.FrontierEmpty = false
	for depth := 0; len(frontier) > 0; depth++ {
		var next []node
		for _, nd := range frontier {
			ReleaseC() // no array of the previous state is referenced from here on
			e.checkState(nd.chain)
			if len(e.fails) >= maxInt(opt.MaxFailures, 1)*8 {
				return e.st, e.list()
			}
			atBound := depth >= opt.MaxDepth // still expand, only to learn whether the frontier has closed
			w, err := build(be, rootShape, nd.chain)
			if err != nil {
				continue // already reported when the state was created
			}
			cur := w.views[len(w.views)-1]
			mcur := w.models[len(w.models)-1]
			for _, op := range e.alphabet(mcur) {
				e.st.Transitions++
				var child A
				var cerr error
				p := try(func() {
					if op.Kind == "slice" {
						child = cur.Slice(cp(op.Loc), cp(op.Dims), cp(op.Step))
					} else {
						child, cerr = cur.Reshape(cp(op.Shape))
					}
				})
				chain := append(append([]Op{}, nd.chain...), op)
				if p != nil {
					if !atBound {
						e.fail("transition-panics", chain, fmt.Sprintf("panic: %v", p.v), nil)
					}
					continue
				}
				if cerr != nil {
					if !atBound {
						e.fail("reshape-same-count-fails", chain, cerr.Error(), nil)
					}
					continue
				}
				k := privKey(w.root, child)
				if !seen[k] {
					if atBound {
						unexplored++
						continue
					}
					seen[k] = true
					e.st.States++
					next = append(next, node{chain, depth + 1})
				}
			}
		}
		if len(next) > 0 {
			e.st.StatesPerDepth = append(e.st.StatesPerDepth, len(next))
			e.st.MaxDepth = depth + 1
		}
		frontier = next
		if depth >= opt.MaxDepth {
			break
		}
	}
	e.st.FrontierEmpty = unexplored == 0
	e.st.UnexploredSuccessors = unexplored
	ReleaseC()
	return e.st, e.list()
}

func maxInt(a, b int) int {
	if a > b {
		return a
	}
	return b
}

func (e *explorer[T, A]) list() []*Failure {
	keys := make([]string, 0, len(e.fails))
	for k := range e.fails {
		keys = append(keys, k)
	}
	sort.Strings(keys)
	out := make([]*Failure, 0, len(keys))
	for _, k := range keys {
		out = append(out, e.fails[k])
	}
	return out
}

// alphabet: every in-bounds Slice(loc,dims,step) with step in Steps per dimension, and (optionally)
// every Reshape to an ordered factorisation of the element count into <= 4 factors.
func (e *explorer[T, A]) alphabet(m *mview[T]) []Op {
	var out []Op
	shape := m.shape
	nd := len(shape)
	if product(shape) > 0 {
		// per dimension: list of (loc, dim, step) options
		type opt struct{ loc, dim, step int }
		per := make([][]opt, nd)
		for d := 0; d < nd; d++ {
			for _, s := range e.opt.Steps {
				st := s
				if st == 0 {
					st = 1
				}
				for _, loc := range e.axisStarts(shape[d]) {
					for _, dim := range e.axisLens(shape[d], loc, st) {
						if dim == 1 && s > 1 {
							continue // a single element: the step is irrelevant, keep the unit-step variant only
						}
						per[d] = append(per[d], opt{loc, dim, s})
					}
				}
			}
		}
		idx := make([]int, nd)
		for {
			loc, dims, step := make([]int, nd), make([]int, nd), make([]int, nd)
			allNil, anyNil := true, false
			for d := 0; d < nd; d++ {
				o := per[d][idx[d]]
				loc[d], dims[d], step[d] = o.loc, o.dim, o.step
				if o.step != 0 {
					allNil = false
				} else {
					anyNil = true
				}
			}
			if allNil {
				out = append(out, Op{Kind: "slice", Loc: loc, Dims: dims, Step: nil})
			} else if !anyNil {
				out = append(out, Op{Kind: "slice", Loc: loc, Dims: dims, Step: step})
			}
			d := nd - 1
			for ; d >= 0; d-- {
				idx[d]++
				if idx[d] < len(per[d]) {
					break
				}
				idx[d] = 0
			}
			if d < 0 {
				break
			}
		}
	}
	if e.opt.Reshape {
		for _, s := range factorisations(product(shape), 4) {
			if e.opt.Coarse && product(shape) > 64 && !(len(s) == 1 || (len(s) == 2 && (s[0] == 2 || s[1] == 2))) {
				continue // wide roots: only the flat shape and the two-row / two-column shapes as transitions (every same-count shape is still observed in each state)
			}
			if !sameInts(s, shape) {
				out = append(out, Op{Kind: "reshape", Shape: s})
			}
		}
	}
	return out
}

// axisStarts / axisLens: the positions and run lengths enumerated along one axis of extent n. Everything for short axes;
// for long axes of a Coarse exploration a fixed small set that brackets the usual size thresholds.
func (e *explorer[T, A]) axisStarts(n int) []int {
	var out []int
	if !e.opt.Coarse || n <= 8 {
		for i := 0; i < n; i++ {
			out = append(out, i)
		}
		return out
	}
	return []int{0, 1, 5}
}

func (e *explorer[T, A]) axisLens(n, loc, step int) []int {
	maxL := 0
	for L := 1; loc+(L-1)*step < n; L++ {
		maxL = L
	}
	var out []int
	if !e.opt.Coarse || n <= 8 {
		for L := 1; L <= maxL; L++ {
			out = append(out, L)
		}
		return out
	}
	seen := map[int]bool{}
	for _, L := range []int{1, 2, 15, 16, 17, 31, 32, 33, 63, 64, 65, maxL - 1, maxL} {
		if L >= 1 && L <= maxL && !seen[L] {
			seen[L] = true
			out = append(out, L)
		}
	}
	sort.Ints(out)
	return out
}

// positions: every index vector whose components are axis starts
func (e *explorer[T, A]) positions(shape []int) [][]int {
	out := [][]int{{}}
	for d := range shape {
		var next [][]int
		for _, p := range out {
			for _, x := range e.axisStarts(shape[d]) {
				next = append(next, append(append([]int{}, p...), x))
			}
		}
		out = next
	}
	return out
}

func sameInts(a, b []int) bool {
	if len(a) != len(b) {
		return false
	}
	for i := range a {
		if a[i] != b[i] {
			return false
		}
	}
	return true
}

// factorisations: all ordered factorisations of n into 1..maxLen factors (factors >= 1; a factor 1 only
// in shapes of length <= 3 to keep 1-wide dimensions in play without exploding).
func factorisations(n, maxLen int) [][]int {
	var out [][]int
	var rec func(rem int, cur []int)
	rec = func(rem int, cur []int) {
		if len(cur) > 0 && rem == 1 {
			out = append(out, append([]int{}, cur...))
		}
		if len(cur) == maxLen {
			return
		}
		for f := 1; f <= rem; f++ {
			if rem%f != 0 {
				continue
			}
			if f == 1 {
				ones := 0
				for _, c := range cur {
					if c == 1 {
						ones++
					}
				}
				if ones >= 1 || len(cur) >= 2 {
					continue
				}
			}
			if f == 1 && rem == 1 && len(cur) > 0 {
				continue
			}
			rec(rem/f, append(cur, f))
		}
	}
	if n == 0 {
		return nil
	}
	rec(n, nil)
	// dedupe
	seen := map[string]bool{}
	var res [][]int
	for _, s := range out {
		k := fmt.Sprint(s)
		if !seen[k] && product(s) == n {
			seen[k] = true
			res = append(res, s)
		}
	}
	return res
}
