package seqx

import (
	"unsafe"

	"github.com/flowmatters/openwater-core/data"
	"github.com/flowmatters/openwater-core/data/cdata"
)

const margin = 24

// GoBackend: arrays over a Go slice the harness owns (payload in the middle of a larger slice so that a
// write outside the payload lands on a guard element instead of going unnoticed).
func GoBackend[T Number, A ND[T, A]](typ string, from func([]T, []int) A, scale func(A, A, T), addTo func(A, A), func1 func(A, A, func(T) T)) *Backend[T, A] {
	guard := T(9)
	return &Backend[T, A]{Name: "go", Type: typ, GoBacked: true, Scale: scale, AddTo: addTo, Func1: func1,
		New: func(vals []T, dims []int) *Root[T, A] {
			n := len(vals)
			buf := make([]T, n+2*margin)
			for i := range buf {
				buf[i] = guard
			}
			copy(buf[margin:], vals)
			r := &Root[T, A]{Arr: from(buf[margin:margin+n], dims)}
			r.Raw = func() []T { return append([]T{}, buf[margin:margin+n]...) }
			r.Guard = func() bool {
				for i := range buf {
					if (i < margin || i >= margin+n) && buf[i] != guard {
						return false
					}
				}
				return true
			}
			r.Base = uintptr(unsafe.Pointer(&buf[margin]))
			r.Elem = unsafe.Sizeof(buf[0])
			return r
		}}
}

// CBackend: arrays wrapped around "caller-owned C memory": a buffer of the C element type CT.
func CBackend[T Number, CT Number, A ND[T, A]](typ string, ctor func(unsafe.Pointer, []int) A, scale func(A, A, T), addTo func(A, A), func1 func(A, A, func(T) T)) *Backend[T, A] {
	guard := CT(9)
	return &Backend[T, A]{Name: "c", Type: typ, GoBacked: false, Scale: scale, AddTo: addTo, Func1: func1,
		New: func(vals []T, dims []int) *Root[T, A] {
			n := len(vals)
			var one CT
			mem := cAlloc(uintptr(n+2*margin) * unsafe.Sizeof(one))
			buf := unsafe.Slice((*CT)(mem), n+2*margin)
			for i := range buf {
				buf[i] = guard
			}
			for i, v := range vals {
				buf[margin+i] = CT(v)
			}
			r := &Root[T, A]{Arr: ctor(unsafe.Pointer(&buf[margin]), dims)}
			r.Raw = func() []T {
				out := make([]T, n)
				for i := range out {
					out[i] = T(buf[margin+i])
				}
				return out
			}
			r.Guard = func() bool {
				for i := range buf {
					if (i < margin || i >= margin+n) && buf[i] != guard {
						return false
					}
				}
				return true
			}
			r.Base = uintptr(unsafe.Pointer(&buf[margin]))
			r.Elem = unsafe.Sizeof(buf[0])
			return r
		}}
}

// Runner hides the element type.
type Runner struct {
	Type, Backend string
	Run           func(root []int, opt Options) (Stats, []*Failure)
}

func runner[T Number, A ND[T, A]](be *Backend[T, A]) Runner {
	return Runner{Type: be.Type, Backend: be.Name, Run: func(root []int, opt Options) (Stats, []*Failure) { return Explore(be, root, opt) }}
}

// Runners returns the 8 element types x 2 back-ends.
func Runners() []Runner {
	var gos, cs []Runner
	{
		g, c := GoBackend("float64", data.ArrayFromSliceFloat64, data.ScaleFloat64Array, data.AddToFloat64Array, data.ApplyFunc1Float64), CBackend[float64, float64]("float64", cdata.NewFloat64CArray, data.ScaleFloat64Array, data.AddToFloat64Array, data.ApplyFunc1Float64)
		g.Alt, c.Alt = c.New, g.New
		gos, cs = append(gos, runner(g)), append(cs, runner(c))
	}
	{
		g, c := GoBackend("float32", data.ArrayFromSliceFloat32, data.ScaleFloat32Array, data.AddToFloat32Array, data.ApplyFunc1Float32), CBackend[float32, float32]("float32", cdata.NewFloat32CArray, data.ScaleFloat32Array, data.AddToFloat32Array, data.ApplyFunc1Float32)
		g.Alt, c.Alt = c.New, g.New
		gos, cs = append(gos, runner(g)), append(cs, runner(c))
	}
	{
		g, c := GoBackend("int32", data.ArrayFromSliceInt32, data.ScaleInt32Array, data.AddToInt32Array, data.ApplyFunc1Int32), CBackend[int32, int32]("int32", cdata.NewInt32CArray, data.ScaleInt32Array, data.AddToInt32Array, data.ApplyFunc1Int32)
		g.Alt, c.Alt = c.New, g.New
		gos, cs = append(gos, runner(g)), append(cs, runner(c))
	}
	{
		g, c := GoBackend("uint32", data.ArrayFromSliceUint32, data.ScaleUint32Array, data.AddToUint32Array, data.ApplyFunc1Uint32), CBackend[uint32, uint32]("uint32", cdata.NewUint32CArray, data.ScaleUint32Array, data.AddToUint32Array, data.ApplyFunc1Uint32)
		g.Alt, c.Alt = c.New, g.New
		gos, cs = append(gos, runner(g)), append(cs, runner(c))
	}
	{
		g, c := GoBackend("int64", data.ArrayFromSliceInt64, data.ScaleInt64Array, data.AddToInt64Array, data.ApplyFunc1Int64), CBackend[int64, int64]("int64", cdata.NewInt64CArray, data.ScaleInt64Array, data.AddToInt64Array, data.ApplyFunc1Int64)
		g.Alt, c.Alt = c.New, g.New
		gos, cs = append(gos, runner(g)), append(cs, runner(c))
	}
	{
		g, c := GoBackend("uint64", data.ArrayFromSliceUint64, data.ScaleUint64Array, data.AddToUint64Array, data.ApplyFunc1Uint64), CBackend[uint64, uint64]("uint64", cdata.NewUint64CArray, data.ScaleUint64Array, data.AddToUint64Array, data.ApplyFunc1Uint64)
		g.Alt, c.Alt = c.New, g.New
		gos, cs = append(gos, runner(g)), append(cs, runner(c))
	}
	{
		g, c := GoBackend[int, data.NDInt]("int", data.ArrayFromSliceInt, nil, nil, nil), CBackend[int, int32, data.NDInt]("int", cdata.NewIntCArray, nil, nil, nil)
		g.Alt, c.Alt = c.New, g.New
		gos, cs = append(gos, runner(g)), append(cs, runner(c))
	}
	{
		g, c := GoBackend[uint, data.NDUint]("uint", data.ArrayFromSliceUint, nil, nil, nil), CBackend[uint, uint32, data.NDUint]("uint", cdata.NewUintCArray, nil, nil, nil)
		g.Alt, c.Alt = c.New, g.New
		gos, cs = append(gos, runner(g)), append(cs, runner(c))
	}
	return append(gos, cs...)
}
