// Package vrt is the runtime shim of the /verif controlled scheduler.
//
// Rewritten repository code (tools/rewrite) calls vrt.Go / vrt.MakeChanInt / ... instead of the go
// statement and channel operations, and vsync.RWMutex instead of sync.RWMutex. Without an active
// scheduler every entry point passes straight through to the Go primitive it replaces. With a scheduler
// (Run) exactly one logical thread runs at a time and every visible operation is a scheduling point at
// which a Chooser decides who goes next, so an explorer can enumerate interleavings.
//
// The hand-off between logical threads uses Go channels wrapped in runtime.RaceDisable, and the
// scheduler's own state is only touched in //go:norace functions, so the hand-offs are NOT
// happens-before edges for the Go race detector: under -race the detector sees exactly the program's own
// synchronisation (re-created with RaceAcquire/RaceRelease for the modelled channels and locks) and reports
// conflicting accesses of every explored schedule.
package vrt

import (
	"fmt"
	"time"
	"unsafe"
)

const (
	maxThreads = 64
	maxEvents  = 8192
)

// operation kinds
const (
	OpStart = iota
	OpSpawn
	OpSend
	OpRecv
	OpLock
	OpRLock
	OpWait
	OpSleep
	OpCall // library call boundary (fake HDF5)
	OpExit
	OpProbe
	OpUnlock
	OpRUnlock
	OpClose
)

var opNames = [...]string{"start", "spawn", "send", "recv", "lock", "rlock", "wait", "sleep", "call", "exit", "probe", "unlock", "runlock", "close"}

// Event is one entry of the execution log.
type Event struct {
	Thread int
	Op     int
	Obj    int    // channel / lock id, or generation number for probes
	Arg    int    // value sent/received, partner thread, ...
	Name   string // probe / call name
}

func (e Event) String() string {
	return fmt.Sprintf("T%d %s obj=%d arg=%d %s", e.Thread, opNames[e.Op], e.Obj, e.Arg, e.Name)
}

type thread struct {
	id       int
	wake     chan struct{}
	alive    bool
	done     bool
	pending  int // pending operation kind (-1: running / none)
	obj      *object
	val      int         // value to send
	sval     string      // string value to send
	aval     interface{} // value of any other type to send
	recvInt  int
	recvStr  string
	recvAny  interface{}
	partner  *thread // the other side of the last rendezvous / the sender whose buffered value was taken
	sendSync byte    // race-detector addresses: what this thread released when sending / receiving
	recvSync byte
	held     int  // modelled locks currently held
	yielded  bool // last op was a Sleep: not eligible again until somebody else has moved (when possible)
	name     string
}

type object struct {
	id int
	// channel
	cap     int
	closed  bool
	ibuf    [16]int
	sbuf    [16]string
	abuf    [16]interface{}
	senders [16]*thread
	n       int
	sync1   byte // addresses used for race annotations
	sync2   byte
	// lock
	writer  int // thread id holding the write lock, -1
	readers int
	// waitgroup
	counter int
}

// Choice is one enabled transition: thread t (paired with sender s for a rendezvous, else -1).
type Choice struct{ T, S int }

// Point records one decision: how many transitions were enabled, which one (in canonical order: the
// running thread first when it can continue, then ascending (thread, sender)) was taken, and whether
// taking another one was a preemption.
type Point struct {
	N          int
	Chosen     int
	CurEnabled bool
}

const maxPoints = 4096

type sched struct {
	threads  [maxThreads]*thread
	nthreads int
	cur      int
	prefix   []int // choices to replay (canonical indices); afterwards choice 0
	points   [maxPoints]Point
	npoints  int
	diverged bool
	events   [maxEvents]Event
	nevents  int
	nobjects int
	aborted  bool
	abortWhy string
	exitCode int
	exited   bool
	finished chan struct{}
	steps    int
	maxSteps int
	deadlock bool
	horizon  bool
	enabled  [maxThreads * 4]Choice
	monitor  func(e Event) // called for every event (may be nil)
	endSync  byte          // race-detector rendezvous between the end of an execution and the harness
}

var active *sched

// Instrumented is set to "yes" (go build -ldflags -X) by the builds that compile the rewritten /repo sources.
var Instrumented = "no"

// ProbeCount is the number of probes the rewriter could insert (go build -ldflags -X): the protocol monitors of the
// ow-sim checks read the events of four named functions; when one of them no longer exists under that name the
// monitors are switched off (and say so) instead of reading a partial event stream.
var ProbeCount = ""

// Active reports whether a controlled execution is in progress.
//
//go:norace
func Active() bool { return active != nil }

type abortSentinel struct{}

//go:norace
func (s *sched) log(e Event) {
	if s.nevents < maxEvents {
		s.events[s.nevents] = e
		s.nevents++
	}
	if s.monitor != nil {
		s.monitor(e)
	}
}

//go:norace
func (s *sched) newObject() *object {
	s.nobjects++
	return &object{id: s.nobjects, writer: -1}
}

//go:norace
func (s *sched) me() *thread { return s.threads[s.cur] }

// enabledOp reports whether thread t's pending operation can complete now; for a receive on an
// unbuffered channel the possible senders are listed through the rendezvous choices instead.
//
//go:norace
func (s *sched) computeEnabled() int {
	n := 0
	anyNonYield := false
	for i := 0; i < s.nthreads; i++ {
		t := s.threads[i]
		if !t.alive || t.done || t.pending < 0 {
			continue
		}
		switch t.pending {
		case OpStart, OpSpawn, OpCall, OpProbe, OpSleep, OpClose:
			s.enabled[n] = Choice{i, -1}
			n++
			if t.pending != OpSleep || !t.yielded {
				anyNonYield = true
			}
		case OpSend:
			if t.obj.cap > 0 && t.obj.n < t.obj.cap {
				s.enabled[n] = Choice{i, -1}
				n++
				anyNonYield = true
			}
			// unbuffered: enabled through the receiver's rendezvous choice
		case OpRecv:
			if t.obj.cap > 0 {
				if t.obj.n > 0 || t.obj.closed {
					s.enabled[n] = Choice{i, -1}
					n++
					anyNonYield = true
				}
			} else {
				senders := 0
				for j := 0; j < s.nthreads; j++ {
					u := s.threads[j]
					if u.alive && !u.done && u.pending == OpSend && u.obj == t.obj {
						s.enabled[n] = Choice{i, j}
						n++
						senders++
						anyNonYield = true
					}
				}
				if senders == 0 && t.obj.closed { // a receive from a closed channel completes at once with the zero value
					s.enabled[n] = Choice{i, -1}
					n++
					anyNonYield = true
				}
			}
		case OpLock:
			if t.obj.writer < 0 && t.obj.readers == 0 {
				s.enabled[n] = Choice{i, -1}
				n++
				anyNonYield = true
			}
		case OpRLock:
			if t.obj.writer < 0 {
				s.enabled[n] = Choice{i, -1}
				n++
				anyNonYield = true
			}
		case OpWait:
			if t.obj.counter == 0 {
				s.enabled[n] = Choice{i, -1}
				n++
				anyNonYield = true
			}
		}
	}
	// a thread that has just yielded (Sleep) is not eligible while somebody else can move
	if anyNonYield {
		m := 0
		for k := 0; k < n; k++ {
			t := s.threads[s.enabled[k].T]
			if t.pending == OpSleep && t.yielded {
				continue
			}
			s.enabled[m] = s.enabled[k]
			m++
		}
		n = m
	}
	return n
}

// decide picks the next transition and applies it; returns the thread that must run now.
//
//go:norace
func (s *sched) decide() *thread {
	if s.aborted {
		return nil
	}
	n := s.computeEnabled()
	if n == 0 {
		// everybody finished?
		all := true
		for i := 0; i < s.nthreads; i++ {
			if s.threads[i].alive && !s.threads[i].done {
				all = false
			}
		}
		if !all {
			s.deadlock = true
			s.abort("deadlock: no enabled thread")
		}
		return nil
	}
	s.steps++
	if s.steps > s.maxSteps {
		s.horizon = true
		s.abort("horizon")
		return nil
	}
	curEnabled := false
	if s.cur >= 0 {
		for k := 0; k < n; k++ {
			if s.enabled[k].T == s.cur {
				curEnabled = true
			}
		}
		if s.threads[s.cur].pending == OpSleep {
			curEnabled = false // leaving a thread that yields is not a preemption
		}
	}
	// canonical order: insertion sort by (is-current, thread, sender)
	for a := 1; a < n; a++ {
		for b := a; b > 0; b-- {
			x, y := s.enabled[b-1], s.enabled[b]
			cx, cy := curEnabled && x.T == s.cur, curEnabled && y.T == s.cur
			less := false
			if cx != cy {
				less = cy
			} else if x.T != y.T {
				less = y.T < x.T
			} else {
				less = y.S < x.S
			}
			if !less {
				break
			}
			s.enabled[b-1], s.enabled[b] = y, x
		}
	}
	k := 0
	if s.npoints < len(s.prefix) {
		k = s.prefix[s.npoints]
		if k >= n {
			s.diverged = true
			k = 0
		}
	}
	if s.npoints < maxPoints {
		s.points[s.npoints] = Point{n, k, curEnabled}
		s.npoints++
	} else {
		s.horizon = true
		s.abort("horizon (points)")
		return nil
	}
	c := s.enabled[k]
	t := s.threads[c.T]
	// everybody who was skipped over has seen somebody move
	for i := 0; i < s.nthreads; i++ {
		if i != c.T {
			s.threads[i].yielded = false
		}
	}
	switch t.pending {
	case OpSend:
		o := t.obj
		o.ibuf[o.n], o.sbuf[o.n], o.abuf[o.n] = t.val, t.sval, t.aval
		o.senders[o.n] = t
		o.n++
		s.log(Event{Thread: t.id, Op: OpSend, Obj: o.id, Arg: t.val, Name: t.sval})
	case OpClose:
		t.obj.closed = true
		s.log(Event{Thread: t.id, Op: OpClose, Obj: t.obj.id})
	case OpRecv:
		o := t.obj
		if (o.cap > 0 && o.n == 0) || (o.cap == 0 && c.S < 0) { // closed and drained
			t.recvInt, t.recvStr, t.recvAny, t.partner = 0, "", nil, nil
			s.log(Event{Thread: t.id, Op: OpRecv, Obj: o.id, Arg: 0, Name: "closed"})
		} else if o.cap > 0 {
			t.recvInt, t.recvStr, t.recvAny = o.ibuf[0], o.sbuf[0], o.abuf[0]
			t.partner = o.senders[0]
			// element-wise on purpose: copy() goes through runtime.slicecopy, which reports to the race detector even
			// from a go:norace function, and the scheduler's own buffers would show up as races of the program
			for q := 1; q < o.n; q++ {
				o.ibuf[q-1], o.sbuf[q-1], o.abuf[q-1], o.senders[q-1] = o.ibuf[q], o.sbuf[q], o.abuf[q], o.senders[q]
			}
			o.n--
		} else {
			u := s.threads[c.S]
			t.partner, u.partner = u, t
			t.recvInt, t.recvStr, t.recvAny = u.val, u.sval, u.aval
			u.pending = OpStart // the sender's send has completed; it is simply runnable now
			u.obj = nil
			s.log(Event{Thread: u.id, Op: OpSend, Obj: o.id, Arg: u.val, Name: u.sval})
		}
		if t.partner != nil {
			s.log(Event{Thread: t.id, Op: OpRecv, Obj: o.id, Arg: t.recvInt, Name: t.recvStr})
		}
	case OpLock:
		t.obj.writer = t.id
		t.held++
		s.log(Event{Thread: t.id, Op: OpLock, Obj: t.obj.id})
	case OpRLock:
		t.obj.readers++
		t.held++
		s.log(Event{Thread: t.id, Op: OpRLock, Obj: t.obj.id})
	case OpSleep:
		t.yielded = true
	}
	t.pending = -1
	s.cur = c.T
	return t
}

//go:norace
func (s *sched) abort(why string) {
	if s.aborted {
		return
	}
	s.aborted = true
	s.abortWhy = why
	for i := 0; i < s.nthreads; i++ {
		t := s.threads[i]
		if t.alive && !t.done && i != s.cur {
			t.unpark()
		}
	}
}

func (t *thread) park() {
	raceDisable()
	<-t.wake
	raceEnable()
}

func (t *thread) unpark() {
	raceDisable()
	select {
	case t.wake <- struct{}{}:
	default:
	}
	raceEnable()
}

// point: the calling logical thread announces its next visible operation and lets the scheduler decide.
func (s *sched) point(t *thread, op int, o *object) {
	s.setPending(t, op, o)
	next := s.decide()
	if next != t {
		if next != nil {
			next.unpark()
		}
		if s.isAborted() {
			panic(abortSentinel{})
		}
		t.park()
	}
	if s.isAborted() {
		panic(abortSentinel{})
	}
}

//go:norace
func (s *sched) setPending(t *thread, op int, o *object) { t.pending, t.obj = op, o }

//go:norace
func (s *sched) isAborted() bool { return s.aborted }

//go:norace
func (s *sched) current() *thread {
	if s.cur < 0 {
		return nil
	}
	return s.threads[s.cur]
}

//go:norace
func (s *sched) addThread() *thread {
	t := &thread{id: s.nthreads, wake: make(chan struct{}, 1), alive: true, pending: OpStart}
	s.threads[s.nthreads] = t
	s.nthreads++
	return t
}

//go:norace
func (s *sched) markDone(t *thread) { t.done, t.pending = true, -1 }

// threadMain wraps the body of a logical thread.
func (s *sched) threadMain(t *thread, f func()) {
	defer func() {
		r := recover()
		if _, ok := r.(abortSentinel); r != nil && !ok {
			// a genuine panic of the program under test: record and abort the execution
			s.recordPanic(t, r)
		}
		raceReleaseMerge(unsafe.Pointer(&s.endSync)) // everything this thread did happens-before the harness looking at the result
		s.markDone(t)
		s.log(Event{Thread: t.id, Op: OpExit})
		next := s.decide()
		if next != nil {
			next.unpark()
		} else {
			s.finish()
		}
	}()
	t.park()
	if s.isAborted() {
		panic(abortSentinel{})
	}
	f()
}

//go:norace
func (s *sched) recordPanic(t *thread, r interface{}) {
	s.abort(fmt.Sprintf("panic in thread %d: %v", t.id, r))
}

//go:norace
func (s *sched) finish() {
	// called by the last thread to stop: everybody done or aborted with nobody left to run
	for i := 0; i < s.nthreads; i++ {
		t := s.threads[i]
		if t.alive && !t.done {
			return // still unwinding: the last one closes
		}
	}
	select {
	case <-s.finished:
	default:
		close(s.finished)
	}
}

// ---------------------------------------------------------------------------------------------
// entry points used by rewritten code

// Go replaces the go statement.
func Go(f func()) {
	s := active
	if s == nil {
		go f()
		return
	}
	me := s.current()
	t := s.addThread()
	go s.threadMain(t, f) // the real go statement keeps the spawn happens-before edge for the race detector
	s.log(Event{Thread: me.id, Op: OpSpawn, Arg: t.id})
	s.point(me, OpSpawn, nil)
}

// Sleep replaces time.Sleep: a yield.
func Sleep(d time.Duration) {
	s := active
	if s == nil {
		time.Sleep(d)
		return
	}
	me := s.current()
	s.log(Event{Thread: me.id, Op: OpSleep})
	s.point(me, OpSleep, nil)
}

// Exit replaces os.Exit: ends the controlled execution with a recorded code.
func Exit(code int) {
	s := active
	if s == nil {
		panic(fmt.Sprintf("vrt.Exit(%d) outside a controlled execution", code))
	}
	s.setExit(code)
	panic(abortSentinel{})
}

//go:norace
func (s *sched) setExit(code int) {
	s.exited, s.exitCode = true, code
	s.abort(fmt.Sprintf("exit %d", code))
}

// Probe records an event of the program under test (no scheduling point).
func Probe(name string, obj, arg int) {
	s := active
	if s == nil {
		return
	}
	s.log(Event{Thread: s.current().id, Op: OpProbe, Obj: obj, Arg: arg, Name: name})
}

// Call is a library-call boundary (scheduling point when begin is true).
func Call(name string, write, begin bool) {
	s := active
	if s == nil {
		return
	}
	me := s.current()
	arg := 0
	if write {
		arg = 1
	}
	if begin {
		// a library call made while holding the package lock cannot interleave with a conflicting call of another
		// thread; one made without it is a scheduling point, so that the overlap becomes visible
		if s.heldBy(me) == 0 {
			s.point(me, OpCall, nil)
			arg += 2 // bit 1: the caller holds no lock
		}
		s.log(Event{Thread: me.id, Op: OpCall, Obj: 1, Arg: arg, Name: name})
	} else {
		s.log(Event{Thread: me.id, Op: OpCall, Obj: 0, Arg: arg, Name: name})
	}
}

// ---- channels

// ChanInt / ChanString: the element types whose values the event log records (kept as names for the harnesses).
type ChanInt = Chan[int]
type ChanString = Chan[string]

func MakeChanInt(n int) *ChanInt       { return MakeChan[int](n) }
func MakeChanString(n int) *ChanString { return MakeChan[string](n) }

// Chan is a channel of any element type (the rewriter maps every `chan T` to *Chan[T]); int and string values are
// also recorded in the event log.
type Chan[T any] struct {
	real chan T
	o    *object
}

func MakeChan[T any](n int) *Chan[T] {
	if s := active; s != nil {
		o := s.newObject()
		o.cap = n
		return &Chan[T]{o: o}
	}
	return &Chan[T]{real: make(chan T, n)}
}

func (c *Chan[T]) Send(v T) {
	if c.real != nil {
		c.real <- v
		return
	}
	s := active
	me := s.current()
	switch x := any(v).(type) {
	case int:
		s.setAny(me, x, "", v)
	case string:
		s.setAny(me, 0, x, v)
	default:
		s.setAny(me, 0, "", v)
	}
	if s.isClosed(c.o) {
		panic("send on closed channel")
	}
	raceRelease(unsafe.Pointer(&me.sendSync))
	unbuffered := s.chanCap(c.o) == 0
	s.point(me, OpSend, c.o)
	if unbuffered {
		raceAcquire(unsafe.Pointer(&s.partnerOf(me).recvSync))
	}
}

func (c *Chan[T]) Recv() T {
	if c.real != nil {
		return <-c.real
	}
	s := active
	me := s.current()
	raceRelease(unsafe.Pointer(&me.recvSync))
	s.point(me, OpRecv, c.o)
	if p := s.partnerOf(me); p != nil {
		raceAcquire(unsafe.Pointer(&p.sendSync))
	} else {
		raceAcquire(unsafe.Pointer(&c.o.sync1)) // the channel was closed: the close happens-before this receive
	}
	v, _ := s.recvAnyOf(me).(T)
	return v
}

// RecvOk is the two-valued receive (v, ok := <-ch; also one iteration of `for v := range ch`): ok is false once
// the channel is closed and drained.
func (c *Chan[T]) RecvOk() (T, bool) {
	if c.real != nil {
		v, ok := <-c.real
		return v, ok
	}
	s := active
	me := s.current()
	raceRelease(unsafe.Pointer(&me.recvSync))
	s.point(me, OpRecv, c.o)
	if p := s.partnerOf(me); p != nil {
		raceAcquire(unsafe.Pointer(&p.sendSync))
		v, _ := s.recvAnyOf(me).(T)
		return v, true
	}
	raceAcquire(unsafe.Pointer(&c.o.sync1))
	var zero T
	return zero, false
}

// Close closes the channel: blocked and later receives complete with the zero value once it is drained.
func (c *Chan[T]) Close() {
	if c.real != nil {
		close(c.real)
		return
	}
	s := active
	me := s.current()
	if s.isClosed(c.o) {
		panic("close of closed channel")
	}
	raceReleaseMerge(unsafe.Pointer(&c.o.sync1))
	s.point(me, OpClose, c.o)
}

// Len and Cap are len(ch) and cap(ch): the number of buffered values and the buffer size (no scheduling point: like
// the built-ins they only look at the channel).
func (c *Chan[T]) Len() int {
	if c.real != nil {
		return len(c.real)
	}
	return active.chanLen(c.o)
}

func (c *Chan[T]) Cap() int {
	if c.real != nil {
		return cap(c.real)
	}
	return active.chanCap(c.o)
}

//go:norace
func (s *sched) chanLen(o *object) int { return o.n }

//go:norace
func (s *sched) isClosed(o *object) bool { return o.closed }

//go:norace
func (s *sched) setAny(t *thread, v int, sv string, av interface{}) {
	t.val, t.sval, t.aval = v, sv, av
}

//go:norace
func (s *sched) recvAnyOf(t *thread) interface{} { return t.recvAny }

//go:norace
func (s *sched) setVal(t *thread, v int, sv string) { t.val, t.sval, t.aval = v, sv, nil }

//go:norace
func (s *sched) partnerOf(t *thread) *thread { return t.partner }

//go:norace
func (s *sched) heldBy(t *thread) int { return t.held }

//go:norace
func (s *sched) chanCap(o *object) int { return o.cap }

//go:norace
func (s *sched) recvInt(t *thread) int { return t.recvInt }

//go:norace
func (s *sched) recvStr(t *thread) string { return t.recvStr }

// ---- locks (used by vsync)

type Lock struct {
	o *object
	s *sched
}

//go:norace
func (l *Lock) obj() *object { return l.o }

//go:norace
func NewLock() *Lock {
	if s := active; s != nil {
		return &Lock{o: s.newObject(), s: s}
	}
	return nil
}

// Stale reports whether the lock belongs to an earlier controlled execution.
//
//go:norace
func (l *Lock) Stale() bool { return l == nil || l.s != active }

func (l *Lock) Lock() {
	s := active
	me := s.current()
	o := l.obj()
	s.point(me, OpLock, o)
	raceAcquire(unsafe.Pointer(&o.sync1))
}

func (l *Lock) Unlock() {
	s := active
	o := l.obj()
	raceRelease(unsafe.Pointer(&o.sync1))
	s.unlock(o)
}

func (l *Lock) RLock() {
	s := active
	me := s.current()
	o := l.obj()
	s.point(me, OpRLock, o)
	raceAcquire(unsafe.Pointer(&o.sync1))
}

func (l *Lock) RUnlock() {
	s := active
	o := l.obj()
	raceReleaseMerge(unsafe.Pointer(&o.sync1))
	s.runlock(o)
}

//go:norace
func (s *sched) unlock(o *object) {
	if o.writer != s.cur {
		s.abort(fmt.Sprintf("thread %d unlocks a mutex it does not hold", s.cur))
	}
	o.writer = -1
	s.threads[s.cur].held--
	s.log(Event{Thread: s.cur, Op: OpUnlock, Obj: o.id})
}

//go:norace
func (s *sched) runlock(o *object) {
	o.readers--
	s.threads[s.cur].held--
	if o.readers < 0 {
		s.abort("RUnlock of an unlocked RWMutex")
	}
	s.log(Event{Thread: s.cur, Op: OpRUnlock, Obj: o.id})
}

// ---- wait groups

type WG struct {
	o *object
	s *sched
}

//go:norace
func (w *WG) obj() *object { return w.o }

//go:norace
func NewWG() *WG {
	if s := active; s != nil {
		return &WG{o: s.newObject(), s: s}
	}
	return nil
}

//go:norace
func (w *WG) Stale() bool { return w == nil || w.s != active }

func (w *WG) Add(n int) {
	o := w.obj()
	raceReleaseMerge(unsafe.Pointer(&o.sync1))
	active.wgAdd(o, n)
}

//go:norace
func (s *sched) wgAdd(o *object, n int) { o.counter += n }

func (w *WG) Wait() {
	s := active
	me := s.current()
	o := w.obj()
	s.point(me, OpWait, o)
	raceAcquire(unsafe.Pointer(&o.sync1))
}

// ---------------------------------------------------------------------------------------------
// running one controlled execution

// Result of one execution.
type Result struct {
	Events   []Event
	Deadlock bool
	Horizon  bool
	Exited   bool
	ExitCode int
	Panic    string
	Threads  int
	Steps    int
	Races    int // data races reported by the Go race detector during this execution (race builds)
	Points   []Point
	Diverged bool // the prefix asked for a choice that was not available
}

// Run executes body as logical thread 0, replaying the choice prefix and taking choice 0 afterwards. monitor (optional) sees every event as it happens.
func Run(body func(), prefix []int, maxSteps int, monitor func(Event)) Result {
	if active != nil {
		panic("vrt.Run: nested controlled execution")
	}
	races0 := RaceErrors()
	s := &sched{cur: -1, prefix: prefix, maxSteps: maxSteps, finished: make(chan struct{}), monitor: monitor}
	active = s
	t0 := s.addThread()
	go s.threadMain(t0, body)
	first := s.decide()
	if first != nil {
		first.unpark()
	}
	<-s.finished
	raceAcquire(unsafe.Pointer(&s.endSync))
	active = nil
	r := Result{Events: append([]Event{}, s.events[:s.nevents]...), Deadlock: s.deadlock, Horizon: s.horizon, Exited: s.exited, ExitCode: s.exitCode, Threads: s.nthreads, Steps: s.steps}
	if s.aborted && !s.deadlock && !s.horizon && !s.exited {
		r.Panic = s.abortWhy
	}
	r.Races = RaceErrors() - races0
	r.Points = append([]Point{}, s.points[:s.npoints]...)
	r.Diverged = s.diverged
	return r
}
