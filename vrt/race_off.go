//go:build !race

package vrt

import "unsafe"

const RaceEnabled = false

func raceDisable()                      {}
func raceEnable()                       {}
func raceAcquire(p unsafe.Pointer)      {}
func raceRelease(p unsafe.Pointer)      {}
func raceReleaseMerge(p unsafe.Pointer) {}
func RaceErrors() int                   { return 0 }
