//go:build race

package vrt

import (
	"runtime"
	"unsafe"
)

const RaceEnabled = true

func raceDisable()                      { runtime.RaceDisable() }
func raceEnable()                       { runtime.RaceEnable() }
func raceAcquire(p unsafe.Pointer)      { runtime.RaceAcquire(p) }
func raceRelease(p unsafe.Pointer)      { runtime.RaceRelease(p) }
func raceReleaseMerge(p unsafe.Pointer) { runtime.RaceReleaseMerge(p) }

// RaceErrors is the number of data races the Go race detector has reported so far in this process.
func RaceErrors() int { return runtime.RaceErrors() }
