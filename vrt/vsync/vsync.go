// Package vsync mirrors the parts of package sync the repository uses; under a controlled execution the
// operations are scheduling points of vrt, otherwise they are the real ones.
package vsync

import (
	"sync"

	"owverif.local/verif/vrt"
)

type Mutex struct {
	real sync.Mutex
	l    *vrt.Lock
}

//go:norace
func (m *Mutex) lock() *vrt.Lock {
	if m.l.Stale() {
		m.l = vrt.NewLock()
	}
	return m.l
}

func (m *Mutex) Lock() {
	if vrt.Active() {
		m.lock().Lock()
		return
	}
	m.real.Lock()
}

func (m *Mutex) Unlock() {
	if vrt.Active() {
		m.lock().Unlock()
		return
	}
	m.real.Unlock()
}

type RWMutex struct {
	real sync.RWMutex
	l    *vrt.Lock
	gen  int
}

// Reset forgets the modelled lock (between controlled executions).
func (m *RWMutex) Reset() { m.l = nil }

//go:norace
func (m *RWMutex) lock() *vrt.Lock {
	if m.l.Stale() {
		m.l = vrt.NewLock()
	}
	return m.l
}

func (m *RWMutex) Lock() {
	if vrt.Active() {
		m.lock().Lock()
		return
	}
	m.real.Lock()
}
func (m *RWMutex) Unlock() {
	if vrt.Active() {
		m.lock().Unlock()
		return
	}
	m.real.Unlock()
}
func (m *RWMutex) RLock() {
	if vrt.Active() {
		m.lock().RLock()
		return
	}
	m.real.RLock()
}
func (m *RWMutex) RUnlock() {
	if vrt.Active() {
		m.lock().RUnlock()
		return
	}
	m.real.RUnlock()
}

type WaitGroup struct {
	real sync.WaitGroup
	w    *vrt.WG
}

//go:norace
func (w *WaitGroup) wg() *vrt.WG {
	if w.w.Stale() {
		w.w = vrt.NewWG()
	}
	return w.w
}
func (w *WaitGroup) Add(n int) {
	if vrt.Active() {
		w.wg().Add(n)
		return
	}
	w.real.Add(n)
}
func (w *WaitGroup) Done() { w.Add(-1) }
func (w *WaitGroup) Wait() {
	if vrt.Active() {
		w.wg().Wait()
		return
	}
	w.real.Wait()
}

type Once = sync.Once
type Pool = sync.Pool
type Map = sync.Map
