// Package c04: vectorised Run equals independent single-cell runs and touches nothing else.
// Every (model, parameter-set group, N cells, P parameter sets, B input blocks, T, output slack, back-end,
// state source) combination of the stated grid is run once vectorised and cell by cell.
package c04

import (
	"fmt"
	"math"
	"runtime"
	"unsafe"

	"github.com/flowmatters/openwater-core/data"
	"github.com/flowmatters/openwater-core/data/cdata"
	"github.com/flowmatters/openwater-core/sim"
	"owverif.local/verif/mrun"
	"owverif.local/verif/tables"
	"owverif.local/verif/vf"
)

type kase struct {
	tbl      tables.Table
	group    []int // indices into tbl.Params used for the parameter columns
	hetero   bool  // group mixes state-vector lengths (GR4J / Lag)
	procs    int   // GOMAXPROCS during the vectorised Run (0 = leave as is)
	N, P, B  int
	T        int
	slack    int
	cBacked  bool
	fillInit bool // caller-filled (warmed-up) states instead of InitialiseStates(N)
}

const canary = -7.25e300

// buffer with canary margins; returns the backing slice and the payload offset
func guarded(n int) ([]float64, int) {
	const m = 16
	b := make([]float64, n+2*m)
	for i := range b {
		if i < m || i >= m+n {
			b[i] = canary
		}
	}
	return b, m
}

type arr struct {
	buf  []float64 // nil for Go-backed
	off  int
	n    int
	nd   data.NDFloat64
	dims []int
}

func newArr(dims []int, c bool) *arr {
	n := data.Product(dims)
	a := &arr{n: n, dims: dims}
	if c {
		a.buf, a.off = guarded(n)
		if n == 0 {
			// no addressable element: point at the margin (never dereferenced for an empty array)
			a.nd = cdata.NewFloat64CArray(unsafe.Pointer(&a.buf[0]), dims)
		} else {
			a.nd = cdata.NewFloat64CArray(unsafe.Pointer(&a.buf[a.off]), dims)
		}
	} else {
		a.nd = data.NewArrayFloat64(dims)
	}
	return a
}

func (a *arr) canariesOK() bool {
	if a.buf == nil {
		return true
	}
	for i := range a.buf {
		if (i < a.off || i >= a.off+a.n) && a.buf[i] != canary {
			return false
		}
	}
	return true
}

func (a *arr) snapshot() []float64 {
	out := make([]float64, 0, a.n)
	idx := make([]int, len(a.dims))
	for k := 0; k < a.n; k++ {
		out = append(out, a.nd.Get(idx))
		data.Increment(idx, a.dims)
	}
	return out
}

func sameBits(a, b []float64) bool {
	if len(a) != len(b) {
		return false
	}
	for i := range a {
		if math.Float64bits(a[i]) != math.Float64bits(b[i]) {
			return false
		}
	}
	return true
}

func (k *kase) letterSeq(block int) []int {
	out := make([]int, k.T)
	for t := range out {
		out[t] = (block*7 + t*3 + 1) % len(k.tbl.Letters)
	}
	return out
}

func (k *kase) cellParams(col int) []float64 { return k.tbl.Params[k.group[col%len(k.group)]] }

func (k *kase) describe() map[string]interface{} {
	return map[string]interface{}{"model": k.tbl.Model, "param_vectors": k.group, "cells": k.N, "parameter_sets": k.P, "input_blocks": k.B, "timesteps": k.T,
		"output_slack": k.slack, "c_backed": k.cBacked, "caller_filled_states": k.fillInit, "heterogeneous_state_lengths": k.hetero, "gomaxprocs": k.procs}
}

func run(k *kase, r *vf.Rec) {
	model := k.tbl.Model
	desc := sim.Catalog[model]().Description()
	nin, nout := len(desc.Inputs), len(desc.Outputs)
	// --- parameters [rows, P]
	maxN := 0
	for c := 0; c < k.P; c++ {
		if n := tables.TableLen(model, k.cellParams(c)); n > maxN {
			maxN = n
		}
	}
	cols := make([][]float64, k.P)
	for c := range cols {
		cols[c] = tables.Repack(model, k.cellParams(c), maxN)
	}
	rows := len(cols[0])
	params := newArr([]int{rows, k.P}, k.cBacked)
	for c := range cols {
		for i, v := range cols[c] {
			params.nd.Set([]int{i, c}, v)
		}
	}
	// --- inputs [B, nin, T]
	inputs := newArr([]int{k.B, nin, k.T}, k.cBacked)
	blockIn := make([][][]float64, k.B)
	for b := 0; b < k.B; b++ {
		seq := k.letterSeq(b)
		blockIn[b] = make([][]float64, nin)
		for i := 0; i < nin; i++ {
			blockIn[b][i] = make([]float64, k.T)
			for t, l := range seq {
				blockIn[b][i][t] = k.tbl.Letters[l][i]
				inputs.nd.Set([]int{b, i, t}, k.tbl.Letters[l][i])
			}
		}
	}
	m := sim.Catalog[model]()
	p2 := params.nd.(data.ND2Float64)
	if dims := m.FindDimensions(p2); len(dims) > 0 {
		m.InitialiseDimensions(dims)
	}
	m.ApplyParameters(p2)
	// --- states
	var states data.ND2Float64
	var stArr *arr
	cellInit := make([][]float64, k.N)
	if k.fillInit {
		maxLen := 0
		for i := 0; i < k.N; i++ {
			warm := mrun.RunCell(model, k.cellParams(i%k.P), inputsFor(k.tbl, []int{1 % len(k.tbl.Letters), (2 + i) % len(k.tbl.Letters)}), 2, nil)
			cellInit[i] = warm.States
			if len(warm.States) > maxLen {
				maxLen = len(warm.States)
			}
		}
		stArr = newArr([]int{k.N, maxLen}, k.cBacked)
		for i := range cellInit {
			for j, v := range cellInit[i] {
				stArr.nd.Set([]int{i, j}, v)
			}
		}
		states = stArr.nd.(data.ND2Float64)
	} else {
		states = m.InitialiseStates(k.N)
		ns := states.Len(1)
		for i := 0; i < k.N; i++ {
			cellInit[i] = make([]float64, ns)
			for j := 0; j < ns; j++ {
				cellInit[i][j] = states.Get2(i, j)
			}
		}
	}
	nsMulti := states.Len(1)
	// --- outputs
	outputs := newArr([]int{k.N + k.slack, nout + k.slack, k.T + k.slack}, k.cBacked)
	pBefore, iBefore := params.snapshot(), inputs.snapshot()

	if k.procs > 0 {
		old := runtime.GOMAXPROCS(k.procs)
		m.Run(inputs.nd.(data.ND3Float64), states, outputs.nd.(data.ND3Float64))
		runtime.GOMAXPROCS(old)
	} else {
		m.Run(inputs.nd.(data.ND3Float64), states, outputs.nd.(data.ND3Float64))
	}

	d := k.describe()
	sig := func(clause string) string {
		h := ""
		if k.hetero {
			h = "/heterogeneous-state-lengths"
			if !k.fillInit {
				h += "/model-initialised"
			}
		}
		return fmt.Sprintf("C04/%s/%s%s", model, clause, h)
	}
	if !sameBits(pBefore, params.snapshot()) {
		r.Failf(sig("parameters-modified"), d, "%s: Run changed the parameter array", model)
		return
	}
	if !sameBits(iBefore, inputs.snapshot()) {
		r.Failf(sig("inputs-modified"), d, "%s: Run changed the input array", model)
		return
	}
	for _, a := range []*arr{params, inputs, outputs, stArr} {
		if a != nil && !a.canariesOK() {
			r.Failf(sig("write-outside-caller-buffer"), d, "%s: a canary next to a C-backed buffer was overwritten", model)
			return
		}
	}
	nontrivial := false
	for i := 0; i < k.N; i++ {
		// reference: cell i alone, fresh object
		ref := mrun.RunCell(model, k.cellParams(i%k.P), blockIn[i%k.B], k.T, cellInit[i])
		for o := 0; o < nout; o++ {
			for t := 0; t < k.T; t++ {
				got := outputs.nd.Get([]int{i, o, t})
				if got != 0 {
					nontrivial = true
				}
				if math.Float64bits(got) != math.Float64bits(ref.Out[o][t]) {
					d["cell"], d["output"], d["t"], d["got"], d["want"] = i, desc.Outputs[o], t, got, ref.Out[o][t]
					r.Failf(sig("cell-output-differs-from-single-cell-run"), d, "%s: cell %d of %d (param set %d of %d, input block %d of %d) output %s t=%d is %v, alone it is %v", model, i, k.N, i%k.P, k.P, i%k.B, k.B, desc.Outputs[o], t, got, ref.Out[o][t])
					return
				}
			}
		}
		for j := 0; j < nsMulti; j++ {
			got := states.Get2(i, j)
			want := 0.0
			if j < len(ref.States) {
				want = ref.States[j]
			} else if j < len(cellInit[i]) {
				want = cellInit[i][j]
			}
			if math.Float64bits(got) != math.Float64bits(want) {
				d["cell"], d["state"], d["got"], d["want"] = i, j, got, want
				r.Failf(sig("cell-final-state-differs-from-single-cell-run"), d, "%s: cell %d of %d final state %d is %v, alone it is %v", model, i, k.N, j, got, want)
				return
			}
		}
	}
	// slack of the output array must be untouched
	if k.slack > 0 {
		od := outputs.dims
		idx := make([]int, 3)
		for n := 0; n < outputs.n; n++ {
			if idx[0] >= k.N || idx[1] >= nout || idx[2] >= k.T {
				if v := outputs.nd.Get(idx); math.Float64bits(v) != 0 {
					d["index"], d["value"] = append([]int{}, idx...), v
					r.Failf(sig("write-outside-run-cells-outputs-timesteps"), d, "%s: output element %v outside the cells/outputs/timesteps run was written (%v)", model, idx, v)
					return
				}
			}
			data.Increment(idx, od)
		}
	}
	if nontrivial {
		r.MarkNontrivial()
	}
}

func inputsFor(t tables.Table, seq []int) [][]float64 {
	nin := len(t.Letters[0])
	in := make([][]float64, nin)
	for k := range in {
		in[k] = make([]float64, len(seq))
		for i, l := range seq {
			in[k][i] = t.Letters[l][k]
		}
	}
	return in
}

type enum struct{ cases []kase }

func groupsFor(t tables.Table) (groups [][]int, hetero []bool) {
	all := make([]int, len(t.Params))
	for i := range all {
		all[i] = i
	}
	switch t.Model {
	case "GR4J":
		// X4 = 0.5, 1, 1.4, 2.5, 4, 0.7 -> state lengths differ; (1, 0.7) share n1=1, n2=2
		return [][]int{{1, 5}, {2}, {3}, {0, 3}, {3, 0}}, []bool{false, false, false, true, true}
	case "Lag":
		// lags 0,1,2,3,5; mixed groups include a shorter-lag cell whose lag still exceeds a 1-step (or 3-step) series
		return [][]int{{2}, {3}, {0}, {1, 3}, {3, 1}, {2, 3}, {3, 2}, {3, 4}, {4, 3}}, []bool{false, false, false, true, true, true, true, true, true}
	}
	return [][]int{all}, []bool{false}
}

func build(tier string) *enum {
	e := &enum{}
	Ts := []int{1, 3}
	if tier == "thorough" {
		Ts = []int{1, 3, 6}
	}
	for _, t := range tables.All() {
		groups, het := groupsFor(t)
		for gi, g := range groups {
			for N := 1; N <= 4; N++ {
				opts := []int{1}
				if N > 1 {
					opts = append(opts, N)
				}
				if N == 3 {
					opts = append(opts, 2)
				}
				if N == 4 {
					opts = append(opts, 3)
				}
				for _, P := range opts {
					for _, B := range opts {
						for _, T := range Ts {
							for slack := 0; slack <= 1; slack++ {
								for _, cb := range []bool{false, true} {
									for _, fill := range []bool{false, true} {
										if tier == "quick" && cb && slack == 1 && T == 3 && N == 4 {
											continue
										}
										e.cases = append(e.cases, kase{tbl: t, group: g, hetero: het[gi], N: N, P: P, B: B, T: T, slack: slack, cBacked: cb, fillInit: fill})
									}
								}
							}
						}
					}
				}
			}
		}
	}
	// larger cell counts (any batching of cells must still cover every cell): N in {5, 8, 9, 13}, reduced grid
	for _, t := range tables.All() {
		groups, het := groupsFor(t)
		for gi, g := range groups {
			if het[gi] {
				continue
			}
			for _, N := range []int{5, 8, 9, 13} {
				for _, P := range []int{1, N} {
					for _, B := range []int{1, 4, N} {
						for _, cb := range []bool{false, true} {
							e.cases = append(e.cases, kase{tbl: t, group: g, N: N, P: P, B: B, T: 3, slack: 1, cBacked: cb, fillInit: cb})
						}
					}
				}
			}
			// hundreds of cells (a batch size of 64 ... 1024 cells must not leave the remainder out): not a multiple of any power of two above 8
			if gi == 0 || tier == "thorough" {
				many := []int{512, 600, 1025, 1300} // a multiple of 256 / 512, and counts no batch size up to 1024 divides
				if tier == "thorough" {
					many = []int{70, 130, 256, 257, 512, 600, 1024, 1025, 1300, 2051}
				}
				for _, N := range many {
					for _, P := range []int{1, N} {
						e.cases = append(e.cases, kase{tbl: t, group: g, N: N, P: P, B: 7, T: 2, slack: 0, cBacked: false, fillInit: P == 1})
					}
				}
			}
			// the processor count is an input of Run too (any batching of cells by processors must cover each cell once)
			for _, np := range [][2]int{{4, 3}, {5, 2}, {5, 3}, {9, 8}, {9, 4}, {13, 2}, {3, 2}} {
				for _, P := range []int{1, np[0]} {
					for _, cb := range []bool{false, true} {
						if !cb || tier == "thorough" {
							e.cases = append(e.cases, kase{tbl: t, group: g, N: np[0], P: P, B: np[0], T: 3, slack: 1, cBacked: cb, fillInit: true, procs: np[1]})
						}
					}
				}
			}
		}
	}
	return e
}

func (e *enum) N() int64                     { return int64(len(e.cases)) }
func (e *enum) Run(i int64, r *vf.Rec)       { k := e.cases[i]; r.Count("cases/"+k.tbl.Model, 1); run(&k, r) }
func (e *enum) Describe(i int64) interface{} { return e.cases[i].describe() }
func (e *enum) CrashSig(i int64, tail string) (string, string) {
	k := e.cases[i]
	h := ""
	if k.hetero {
		h = "/heterogeneous-state-lengths"
		if !k.fillInit {
			h += "/model-initialised"
		}
	}
	return fmt.Sprintf("C04/%s/crash%s", k.tbl.Model, h), fmt.Sprintf("%s: vectorised Run (or InitialiseStates) crashed the process: %v", k.tbl.Model, k.describe())
}

func Spec() *vf.Check {
	return &vf.Check{
		ID: "C04", Level: "exploration", BlockSize: 16,
		Rule: "all 41 catalogued models x parameter-vector groups x cells N in 1..4 x parameter sets P and input blocks B in {1, N, the value coprime with N below N} (plus N in {5,8,9,13} with P in {1,N}, B in {1,4,N}; plus N in {512,600,1025,1300} (thorough: 70,130,256,257,512,600,1024,1025,1300,2051) with P in {1,N}, B=7, T=2; plus (N, GOMAXPROCS) in {(3,2),(4,3),(5,2),(5,3),(9,4),(9,8),(13,2)}) x T in {1,3,(6)} x outputs exact or one larger in every dimension x Go- or C-backed arrays (with canaries) x states from InitialiseStates(N) or caller-filled (warmed-up, distinct rows); per-cell table lengths differ for Storage and RatingCurvePartition; " +
			"each cell of the vectorised run is compared bit-for-bit with a fresh single-cell run of its parameter column (i mod P), input block (i mod B) and state row; inputs/parameters unchanged; slack and canaries untouched. distinct_nontrivial = configurations with a non-zero output.",
		Assumptions: []string{"a write that stores the value already present in inputs/parameters is not observable here (no access log)", "GR4J/Lag parameter sets mixing unit-hydrograph / lag lengths are enumerated separately (rectangular state array)"},
		Build:       func(tier string) vf.Enumeration { return build(tier) },
	}
}
