// Package c06: hot-start continuity. For every stateful model, every parameter vector of its table,
// every input word of length T over the model's alphabet and EVERY composition of T (all 2^(T-1) ways to
// cut the period into consecutive calls that carry the returned states forward) the concatenated outputs
// and the final states must equal the single uninterrupted call.
package c06

import (
	"fmt"
	"math"
	"sort"
	"strings"

	"github.com/flowmatters/openwater-core/data"
	"github.com/flowmatters/openwater-core/sim"
	"owverif.local/verif/gridx"
	"owverif.local/verif/mrun"
	"owverif.local/verif/tables"
	"owverif.local/verif/vf"
)

const srLimit = 1e-3 // StorageRouting massBalanceLimit

func same(model string, a, b, scale float64, isState bool, elapsed int, dt float64) bool {
	if mrun.SameBits(a, b) {
		return true
	}
	if math.IsNaN(a) || math.IsNaN(b) {
		return false
	}
	if model == "StorageRouting" {
		// the solver's initial guess is not part of the state: allow its own tolerance per elapsed step
		tolS := 2 * srLimit * float64(elapsed+1)
		if isState {
			return math.Abs(a-b) <= tolS+1e-9*math.Abs(a)
		}
		return math.Abs(a-b) <= tolS/dt*10+1e-6*math.Abs(a)
	}
	return math.Abs(a-b) <= 1e-9*math.Max(scale, math.Max(math.Abs(a), math.Abs(b)))+1e-12
}

// cutSets: every composition of T for the short words; for a long periodic series (T > 10) one cut in the middle, after
// the first and before the last step, two cuts at the thirds, and a cut at every period boundary.
func cutSets(T, period int) [][]bool {
	var out [][]bool
	if T <= 10 {
		for mask := 1; mask < 1<<(T-1); mask++ {
			c := make([]bool, T)
			for t := 0; t < T-1; t++ {
				c[t] = mask&(1<<t) != 0
			}
			out = append(out, c)
		}
		return out
	}
	one := func(ts ...int) {
		c := make([]bool, T)
		for _, t := range ts {
			if t >= 0 && t < T-1 {
				c[t] = true
			}
		}
		out = append(out, c)
	}
	one(T/2 - 1)
	one(0)
	one(T - 2)
	one(T/3-1, 2*T/3-1)
	var every []int
	for t := period - 1; period > 0 && t < T-1; t += period {
		every = append(every, t)
	}
	one(every...)
	return out
}

func oracle(model string) func(c *gridx.Case, r *vf.Rec) {
	desc := sim.Catalog[model]().Description()
	return func(c *gridx.Case, r *vf.Rec) {
		whole := c.Run()
		T := c.T
		scale := 0.0
		for _, o := range whole.Out {
			for _, v := range o {
				if !math.IsNaN(v) && !math.IsInf(v, 0) {
					scale = math.Max(scale, math.Abs(v))
				}
			}
		}
		dt := 86400.0
		nontrivial := false
		for _, o := range whole.Out {
			for _, v := range o {
				if v != 0 {
					nontrivial = true
				}
			}
		}
		seen := map[string]bool{}
		for _, cutAfter := range cutSets(T, len(c.Word)) {
			// cut after step t when cutAfter[t]
			states := whole.Init
			outs := make([][]float64, len(whole.Out))
			from := 0
			nseg := 0
			for t := 0; t < T; t++ {
				if t == T-1 || cutAfter[t] {
					seg := c.RunSeg(from, t+1, states)
					for o := range outs {
						outs[o] = append(outs[o], seg.Out[o]...)
					}
					states = seg.States
					from = t + 1
					nseg++
				}
			}
			r.Count("split_runs", 1)
			var dOut, dSt []string
			firstT := -1
			for o := range outs {
				for t := 0; t < T; t++ {
					if !same(model, outs[o][t], whole.Out[o][t], scale, false, t, dt) {
						dOut = append(dOut, desc.Outputs[o])
						if firstT < 0 || t < firstT {
							firstT = t
						}
						break
					}
				}
			}
			if len(states) != len(whole.States) {
				dSt = append(dSt, "state-vector-length")
			} else {
				for i := range states {
					if !same(model, states[i], whole.States[i], math.Max(math.Abs(whole.States[i]), 1), true, T, dt) {
						name := fmt.Sprintf("state%d", i)
						if i < len(desc.States) {
							name = desc.States[i]
						}
						dSt = append(dSt, name)
					}
				}
			}
			if len(dOut) == 0 && len(dSt) == 0 {
				continue
			}
			cuts := []int{}
			for t := 0; t < T-1; t++ {
				if cutAfter[t] {
					cuts = append(cuts, t+1)
				}
			}
			sort.Strings(dOut)
			sort.Strings(dSt)
			afterCut := firstT > 0 && cutAfter[firstT-1] // the first differing step is the first step of a later segment
			cls := classify(model, c, dOut, dSt, afterCut, firstT)
			detail := map[string]interface{}{"cuts_after_steps": cuts, "outputs_differing": dOut, "states_differing": dSt, "first_differing_step": firstT,
				"whole_outputs": whole.Out, "split_outputs": outs, "whole_final_states": whole.States, "split_final_states": states}
			if !seen[cls] { // every distinct class of discrepancy of this word is reported (a known one must not mask another)
				seen[cls] = true
				r.Failf("C06/"+model+"/"+cls, detail, "%s: run cut after steps %v differs from the uninterrupted run (outputs %v, states %v)", model, cuts, dOut, dSt)
			}
		}
		if len(seen) == 0 {
			if comp := companion(model, c.Params); comp != nil && !pairedCells(model, c, comp, r) {
				return
			}
		}
		if nontrivial && len(seen) == 0 {
			r.MarkNontrivial()
		}
	}
}

// companion: for the models whose state-vector length depends on a parameter (Lag, GR4J) a second cell with a LONGER
// state row, so that in a vectorised run this cell's state row is padded (the rectangular state array is as wide as
// the longest row).
func companion(model string, params []float64) []float64 {
	var t tables.Table
	switch model {
	case "Lag":
		t = tables.Get("Lag")
		return t.Params[len(t.Params)-1] // timeLag 5
	case "GR4J":
		t = tables.Get("GR4J")
		return t.Params[4] // X4 = 4
	}
	return nil
}

// pairedCells: the case's cell and its companion run together in one vectorised Run; the period is cut in every way
// with the rectangular state array carried forward; outputs and the state array must equal the uninterrupted
// vectorised run bit for bit.
func pairedCells(model string, c *gridx.Case, comp []float64, r *vf.Rec) bool {
	T := c.T
	cp := [][]float64{c.Params, comp}
	other := make([][]float64, len(c.Inputs)) // the companion gets the series reversed in time
	for k := range other {
		other[k] = make([]float64, T)
		for t := 0; t < T; t++ {
			other[k][t] = c.Inputs[k][T-1-t]
		}
	}
	all := [][][]float64{c.Inputs, other}
	wholeOut, wholeSt := mrun.RunCells(model, cp, all, T, nil)
	for mask := 1; mask < 1<<(T-1); mask++ {
		outs := [][][]float64{make([][]float64, len(wholeOut[0])), make([][]float64, len(wholeOut[1]))}
		var states data.ND2Float64
		from := 0
		for t := 0; t < T; t++ {
			if t == T-1 || mask&(1<<t) != 0 {
				seg := make([][][]float64, 2)
				for cell := range seg {
					seg[cell] = make([][]float64, len(all[cell]))
					for k := range seg[cell] {
						seg[cell][k] = all[cell][k][from : t+1]
					}
				}
				var so [][][]float64
				so, states = mrun.RunCells(model, cp, seg, t+1-from, states)
				for cell := range outs {
					for o := range outs[cell] {
						outs[cell][o] = append(outs[cell][o], so[cell][o]...)
					}
				}
				from = t + 1
			}
		}
		r.Count("paired_cell_split_runs", 1)
		cuts := []int{}
		for t := 0; t < T-1; t++ {
			if mask&(1<<t) != 0 {
				cuts = append(cuts, t+1)
			}
		}
		for cell := range outs {
			for o := range outs[cell] {
				for t := 0; t < T; t++ {
					if !same(model, outs[cell][o][t], wholeOut[cell][o][t], 1, false, t, 86400) {
						r.Failf("C06/"+model+"/paired-cells/split-output-differs", map[string]interface{}{"cuts_after_steps": cuts, "cell": cell, "companion_params": comp, "whole_outputs": wholeOut, "split_outputs": outs},
							"%s with a companion cell of longer state row: cell %d output %d at t=%d is %v when cut after %v, %v uninterrupted", model, cell, o, t, outs[cell][o][t], cuts, wholeOut[cell][o][t])
						return false
					}
				}
			}
		}
		for cell := 0; cell < 2; cell++ {
			for j := 0; j < wholeSt.Len(1); j++ {
				if a, b := states.Get2(cell, j), wholeSt.Get2(cell, j); !same(model, a, b, math.Max(math.Abs(b), 1), true, T, 86400) {
					r.Failf("C06/"+model+"/paired-cells/split-final-state-differs", map[string]interface{}{"cuts_after_steps": cuts, "cell": cell, "state_index": j, "companion_params": comp},
						"%s with a companion cell of longer state row: cell %d state %d is %v when cut after %v, %v uninterrupted", model, cell, j, a, cuts, b)
					return false
				}
			}
		}
	}
	return true
}

// classify names the discrepancy; narrow classes exist for the recorded findings so that any other
// discontinuity of the same model gets a different signature.
func classify(model string, c *gridx.Case, dOut, dSt []string, afterCut bool, firstT int) string {
	_, names := gridx.Defaults(model)
	p := map[string]float64{}
	for i, n := range names {
		if i < len(c.Params) {
			p[n] = c.Params[i]
		}
	}
	subset := func(xs []string, allowed ...string) bool {
		for _, x := range xs {
			ok := false
			for _, a := range allowed {
				if a == x {
					ok = true
				}
			}
			if !ok {
				return false
			}
		}
		return true
	}
	switch model {
	case "Sacramento":
		lagged := p["uh2"]+p["uh3"]+p["uh4"]+p["uh5"] > 0
		if lagged && len(dSt) == 0 && subset(dOut, "runoff", "surfaceRunoff", "baseflow", "actualET") {
			return "unit-hydrograph-buffer-not-in-state(flow-outputs-differ,states-equal,uh-lag>0)"
		}
	case "InstreamDissolvedNutrientDecay":
		// the kernel averages the reach volume with the previous step's, a local that every call re-initialises from its own
		// first volume: the first step of a later segment sees another average depth, hence another decay and possibly the
		// other travel-time branch (the only one that reports loadFromPointSource). Only that: the difference must start
		// at the first step of a segment whose volume differs from the step before, with all states equal.
		volumeChanges := false
		for i, n := range sim.Catalog[model]().Description().Inputs {
			if n == "reachVolume" && firstT > 0 && i < len(c.Inputs) && c.Inputs[i][firstT] != c.Inputs[i][firstT-1] {
				volumeChanges = true
			}
		}
		if p["doDecay"] >= 0.5 && len(dSt) == 0 && afterCut && volumeChanges && subset(dOut, "decayedLoad", "loadDownstream", "loadFromPointSource") {
			return "previous-reach-volume-not-in-state(decay-outputs-differ,states-equal,decay-enabled)"
		}
	}
	what := "outputs+states-differ"
	if len(dSt) == 0 {
		what = "outputs-differ-states-equal"
	} else if len(dOut) == 0 {
		what = "final-states-differ-outputs-equal"
	}
	return "split-differs/" + what + "/outputs[" + strings.Join(dOut, ",") + "]/states[" + strings.Join(dSt, ",") + "]"
}

func spaces(tier string) []*gridx.Space {
	var out []*gridx.Space
	for _, t := range tables.Stateful() {
		T := 5
		if len(t.Letters) > 5 {
			T = 4
		}
		if tier == "thorough" {
			T = 6
			if len(t.Letters) > 5 {
				T = 5
			}
		}
		if t.Cost == 3 {
			T = 3
			if tier == "thorough" {
				T = 4
			}
		}
		out = append(out, &gridx.Space{Model: t.Model, Params: t.Params, PNames: t.PNames, Letters: t.Letters, T: T, Oracle: oracle(t.Model)})
	}
	// long periodic series (anything a kernel accumulates over the steps of one call, and that a split run restarts)
	for _, t := range tables.Stateful() {
		rep := 520 // 1040 steps: beyond a year of daily steps and beyond 1024
		if tier == "thorough" {
			rep = 1100
		}
		out = append(out, &gridx.Space{Model: t.Model, Params: t.Params, PNames: t.PNames, Letters: t.Letters, T: 2, MinT: 2, Repeat: rep, SecondPassEvery: -1, Oracle: oracle(t.Model)})
	}
	return out
}

func Spec() *vf.Check {
	return &vf.Check{
		ID: "C06", Level: "exploration", BlockSize: 256,
		Rule: "17 stateful models x the parameter vectors of tables.Stateful() (every state-shape variant and branch) x every input word of length T over the model's alphabet x every composition of T (2^(T-1)-1 split patterns incl. 1-step segments and multiple splits), plus every two-letter word repeated 520 (thorough 1100) times as one long series, cut in the middle / after the first step / before the last / at the thirds / at every period; " +
			"concatenated outputs and final states vs the uninterrupted run; for Lag and GR4J (state row length depends on a parameter) the same again with the cell run in ONE vectorised call next to a companion cell with a longer state row (padded row; rectangular state array carried forward) (round-off tolerance; StorageRouting: the solver's mass-balance tolerance per elapsed step). distinct_nontrivial = words with a non-zero output; counters.split_runs = split patterns executed.",
		Assumptions: []string{"StorageRouting's solver keeps an initial guess that is not a state: 2*massBalanceLimit per elapsed step is allowed on storage, the corresponding bound on outflow", "lattice values and horizon T only"},
		Build:       func(tier string) vf.Enumeration { return gridx.NewEnum("C06", spaces(tier)) },
	}
}
