// Package c16: partition, conversion and generation models satisfy their algebraic identities.
// Bounded-exhaustive: per model a parameter grid x all words of length T over an input alphabet; the
// identity the model names is evaluated at every timestep of every run of the real catalogued model.
package c16

import (
	"fmt"
	"math"

	"github.com/flowmatters/openwater-core/sim"
	"owverif.local/verif/gridx"
	"owverif.local/verif/mrun"
	"owverif.local/verif/vf"
)

const (
	mgL   = 1e-3 // mg/L -> kg/m3
	mm2m  = 1e-3
	pct   = 0.01
	t2kg  = 1e3
	relTo = 1e-12
)

// step oracle: p = parameters by name, in = inputs by name at t, out = outputs by name at t.
// returns "" or a clause label + message.
type stepOracle func(p, in, out map[string]float64) (clause, msg string)

func eq(a, b float64, scale ...float64) bool {
	s := math.Max(math.Abs(a), math.Abs(b))
	for _, x := range scale {
		s = math.Max(s, math.Abs(x))
	}
	if math.IsNaN(a) || math.IsNaN(b) {
		return false
	}
	return math.Abs(a-b) <= relTo*s+1e-300
}

func mk(model string, params [][]float64, pnames []string, letters [][]float64, T int, o stepOracle) *gridx.Space {
	desc := sim.Catalog[model]().Description()
	return &gridx.Space{Model: model, Params: params, PNames: pnames, Letters: letters, T: T,
		Oracle: func(c *gridx.Case, r *vf.Rec) {
			res := c.Run()
			p := map[string]float64{}
			k := 0
			for _, pd := range desc.Parameters {
				if len(pd.Dimensions) == 0 && k < len(c.Params) {
					p[pd.Name] = c.Params[k]
					k++
				}
			}
			nontrivial := false
			for t := 0; t < c.T; t++ {
				in := map[string]float64{}
				for k, n := range desc.Inputs {
					in[n] = c.Inputs[k][t]
				}
				out := map[string]float64{}
				for k, n := range desc.Outputs {
					out[n] = res.Out[k][t]
					if res.Out[k][t] != 0 {
						nontrivial = true
					}
					if math.IsNaN(res.Out[k][t]) || math.IsInf(res.Out[k][t], 0) {
						r.Failf(fmt.Sprintf("C16/%s/non-finite-output/%s", model, n), map[string]interface{}{"t": t, "in": in}, "%s: output %s is %v at t=%d", model, n, res.Out[k][t], t)
						return
					}
				}
				if cl, msg := o(p, in, out); cl != "" {
					r.Failf(fmt.Sprintf("C16/%s/%s", model, cl), map[string]interface{}{"t": t, "params": p, "in": in, "out": out}, "%s t=%d: %s", model, t, msg)
					return
				}
			}
			if nontrivial {
				r.MarkNontrivial()
			}
		}}
}

func f(format string, a ...interface{}) string { return fmt.Sprintf(format, a...) }

var vals = []float64{0, 0.3, 7, 1250.5}
var signed = []float64{-3, 0, 0.3, 7, 1250.5}

func spaces(tier string) []*gridx.Space {
	T := 2
	if tier == "thorough" {
		T = 3
	}
	var out []*gridx.Space
	L := gridx.LettersProduct
	G := gridx.Grid
	A := func(n string, v ...float64) gridx.Axis { return gridx.Axis{Name: n, Vals: v} }

	// --- partitions
	ps, pn := G("FixedPartition", nil, []gridx.Axis{A("fraction", 0, 0.2, 0.35, 1)})
	out = append(out, mk("FixedPartition", ps, pn, L(signed), T+1, func(p, in, o map[string]float64) (string, string) {
		if !eq(o["output1"]+o["output2"], in["input"], o["output1"], o["output2"]) {
			return "outputs-do-not-sum-to-input", f("output1+output2=%g input=%g", o["output1"]+o["output2"], in["input"])
		}
		if !eq(o["output1"], in["input"]*p["fraction"]) {
			return "output1-not-fraction-of-input", f("output1=%g, fraction*input=%g", o["output1"], in["input"]*p["fraction"])
		}
		return "", ""
	}))
	out = append(out, mk("VariablePartition", [][]float64{{}}, nil, L(signed, []float64{0, 0.2, 0.35, 1}), T, func(p, in, o map[string]float64) (string, string) {
		if !eq(o["output1"]+o["output2"], in["input"], o["output1"], o["output2"]) {
			return "outputs-do-not-sum-to-input", f("output1+output2=%g input=%g", o["output1"]+o["output2"], in["input"])
		}
		if !eq(o["output1"], in["input"]*in["fraction"]) {
			return "output1-not-fraction-of-input", f("output1=%g, fraction*input=%g", o["output1"], in["input"]*in["fraction"])
		}
		return "", ""
	}))
	out = append(out, mk("PartitionDemand", [][]float64{{}}, nil, L([]float64{0, 0.3, 7, 1250.5}, []float64{-3, 0, 0.3, 5, 7, 2000}), T, func(p, in, o map[string]float64) (string, string) {
		if !eq(o["outflow"]+o["extraction"], in["input"], o["outflow"], o["extraction"]) {
			return "outputs-do-not-sum-to-input", f("outflow+extraction=%g input=%g", o["outflow"]+o["extraction"], in["input"])
		}
		if o["extraction"] > in["demand"] || o["extraction"] > in["input"] {
			return "extraction-exceeds-demand-or-availability", f("extraction=%g demand=%g input=%g", o["extraction"], in["demand"], in["input"])
		}
		if o["outflow"] < 0 {
			return "negative-outflow", f("outflow=%g", o["outflow"])
		}
		if in["demand"] >= 0 && in["demand"] <= in["input"] && !eq(o["extraction"], in["demand"]) {
			return "extraction-not-demand-when-available", f("extraction=%g demand=%g", o["extraction"], in["demand"])
		}
		return "", ""
	}))
	out = append(out, ratingSpaces(T)...)

	// --- pass-through / sum / gate / scaling / delivery ratio / depth to rate
	out = append(out, mk("Input", [][]float64{{}}, nil, L(signed), T+1, func(p, in, o map[string]float64) (string, string) {
		if o["output"] != in["input"] {
			return "not-identity", f("output=%g input=%g", o["output"], in["input"])
		}
		return "", ""
	}))
	out = append(out, mk("Sum", [][]float64{{}}, nil, L(signed, signed), T, func(p, in, o map[string]float64) (string, string) {
		if o["out"] != in["i1"]+in["i2"] {
			return "not-sum", f("out=%g i1+i2=%g", o["out"], in["i1"]+in["i2"])
		}
		return "", ""
	}))
	out = append(out, mk("Gate", [][]float64{{}}, nil, L([]float64{-1, 0, 1e-9, 1, 5}, signed), T, func(p, in, o map[string]float64) (string, string) {
		want := 0.0
		if in["trigger"] > 0 {
			want = in["incoming"]
		}
		if o["outgoing"] != want {
			return "not-mask", f("trigger=%g incoming=%g outgoing=%g", in["trigger"], in["incoming"], o["outgoing"])
		}
		return "", ""
	}))
	ps, pn = G("ApplyScalingFactor", nil, []gridx.Axis{A("scale", 0, 0.35, 1, 2.5, -1)})
	out = append(out, mk("ApplyScalingFactor", ps, pn, L(signed), T+1, func(p, in, o map[string]float64) (string, string) {
		if !eq(o["output"], in["input"]*p["scale"]) {
			return "not-linear-scale", f("output=%g scale*input=%g", o["output"], in["input"]*p["scale"])
		}
		return "", ""
	}))
	ps, pn = G("DeliveryRatio", nil, []gridx.Axis{A("fraction", 0, 0.35, 1)})
	out = append(out, mk("DeliveryRatio", ps, pn, L(signed), T+1, func(p, in, o map[string]float64) (string, string) {
		if !eq(o["output"], in["input"]*p["fraction"]) {
			return "not-delivery-ratio", f("output=%g fraction*input=%g", o["output"], in["input"]*p["fraction"])
		}
		return "", ""
	}))
	ps, pn = G("DepthToRate", nil, []gridx.Axis{A("DeltaT", 3600, 86400), A("area", 0, 1e4, 2.5e6)})
	out = append(out, mk("DepthToRate", ps, pn, L([]float64{0, 0.1, 12, 300}), T+1, func(p, in, o map[string]float64) (string, string) {
		want := in["input"] * mm2m * p["area"] / p["DeltaT"]
		if !eq(o["outflow"], want) {
			return "wrong-unit-factor", f("outflow=%g want mm*1e-3*area/dt=%g", o["outflow"], want)
		}
		return "", ""
	}))

	// --- concentration based generators
	ps, pn = G("EmcDwc", nil, []gridx.Axis{A("EMC", 0, 0.1, 250), A("DWC", 0, 0.1, 40)})
	out = append(out, mk("EmcDwc", ps, pn, L(vals, vals), T, func(p, in, o map[string]float64) (string, string) {
		if !eq(o["totalLoad"], o["quickLoad"]+o["slowLoad"]) {
			return "total-not-quick-plus-slow", f("total=%g quick+slow=%g", o["totalLoad"], o["quickLoad"]+o["slowLoad"])
		}
		if !eq(o["quickLoad"], in["quickflow"]*p["EMC"]*mgL) || !eq(o["slowLoad"], in["baseflow"]*p["DWC"]*mgL) {
			return "not-linear-in-flow-and-concentration", f("quick=%g want %g; slow=%g want %g", o["quickLoad"], in["quickflow"]*p["EMC"]*mgL, o["slowLoad"], in["baseflow"]*p["DWC"]*mgL)
		}
		return "", ""
	}))
	ps, pn = G("FixedConcentration", nil, []gridx.Axis{A("concentration", 0, 0.1, 250)})
	out = append(out, mk("FixedConcentration", ps, pn, L(vals), T+1, func(p, in, o map[string]float64) (string, string) {
		if !eq(o["load"], in["flow"]*p["concentration"]*mgL) {
			return "not-linear-in-flow-and-concentration", f("load=%g want %g", o["load"], in["flow"]*p["concentration"]*mgL)
		}
		return "", ""
	}))
	ps, pn = G("SednetDissolvedNutrientGeneration", nil, []gridx.Axis{A("dissConst_EMC", 0, 0.1, 250), A("dissConst_DWC", 0, 0.1, 40)})
	out = append(out, mk("SednetDissolvedNutrientGeneration", ps, pn, L(vals, vals), T, func(p, in, o map[string]float64) (string, string) {
		if !eq(o["totalLoad"], o["quickflowConstituent"]+o["slowflowConstituent"]) {
			return "total-not-quick-plus-slow", f("total=%g quick+slow=%g", o["totalLoad"], o["quickflowConstituent"]+o["slowflowConstituent"])
		}
		wq, ws := in["quickflow"]*p["dissConst_EMC"]*mgL, in["slowflow"]*p["dissConst_DWC"]*mgL
		if !eq(o["quickflowConstituent"], wq) || !eq(o["slowflowConstituent"], ws) {
			return "not-linear-in-flow-and-concentration", f("quick=%g want %g; slow=%g want %g", o["quickflowConstituent"], wq, o["slowflowConstituent"], ws)
		}
		return "", ""
	}))
	ps, pn = G("PassLoadIfFlow", nil, []gridx.Axis{A("scalingFactor", 0, 0.35, 1, 2)})
	out = append(out, mk("PassLoadIfFlow", ps, pn, L([]float64{0, 1e-9, 1e-3, 12}, []float64{0, 0.3, 7}), T, func(p, in, o map[string]float64) (string, string) {
		if in["flow"] == 0 && o["outputLoad"] != 0 {
			return "load-without-driver", f("flow=0 but outputLoad=%g", o["outputLoad"])
		}
		if in["flow"] >= 1e-3 && !eq(o["outputLoad"], in["inputLoad"]*p["scalingFactor"]) {
			return "not-scaled-load", f("outputLoad=%g want %g", o["outputLoad"], in["inputLoad"]*p["scalingFactor"])
		}
		if o["outputLoad"] < 0 {
			return "negative-load", f("outputLoad=%g", o["outputLoad"])
		}
		return "", ""
	}))

	// --- particulate nutrients
	ps, pn = G("SednetParticulateNutrientGeneration", map[string]float64{"area": 1e6, "nutSurfSoilConc": 0.002, "Nutrient_Enrichment_Ratio": 1.5, "nutSubSoilConc": 0.001, "Nutrient_Enrichment_Ratio_Gully": 1.2},
		[]gridx.Axis{A("hillDeliveryRatio", 0, 35, 100), A("gullyDeliveryRatio", 0, 20, 100), A("nutrientDWC", 0, 0.4), A("Do_P_CREAMS_Enrichment", 0, 1)})
	sed := []float64{0, 120}
	out = append(out, mk("SednetParticulateNutrientGeneration", ps, pn, L(sed, []float64{0, 30}, sed, []float64{0, 45}, []float64{0, 2.5}), T-1+1, func(p, in, o map[string]float64) (string, string) {
		if !eq(o["totalLoad"], o["quickflowConstituent"]+o["slowflowConstituent"]) {
			return "total-not-quick-plus-slow", f("total=%g quick+slow=%g", o["totalLoad"], o["quickflowConstituent"]+o["slowflowConstituent"])
		}
		if !eq(o["quickflowConstituent"], o["hillslopeContribution"]+o["gullyContribution"]) {
			return "quick-not-hillslope-plus-gully", f("quick=%g hill+gully=%g", o["quickflowConstituent"], o["hillslopeContribution"]+o["gullyContribution"])
		}
		hill := (in["fineSedModelFineSheetGeneratedKg"] + in["fineSedModelCoarseSheetGeneratedKg"]) * p["nutSurfSoilConc"] * p["Nutrient_Enrichment_Ratio"]
		gul := (in["fineSedModelFineGullyGeneratedKg"] + in["fineSedModelCoarseGullyGeneratedKg"]) * p["nutSubSoilConc"] * p["Nutrient_Enrichment_Ratio_Gully"]
		if !eq(o["hillslopeContribution"], hill*(p["hillDeliveryRatio"]*pct)) || !eq(o["gullyContribution"], gul*(p["gullyDeliveryRatio"]*pct)) {
			return "delivered-not-generated-times-delivery-ratio", f("hill=%g want %g; gully=%g want %g", o["hillslopeContribution"], hill*p["hillDeliveryRatio"]*pct, o["gullyContribution"], gul*p["gullyDeliveryRatio"]*pct)
		}
		if !eq(o["slowflowConstituent"], in["slowflow"]*p["nutrientDWC"]*mgL) {
			return "slow-not-linear-in-flow-and-concentration", f("slow=%g want %g", o["slowflowConstituent"], in["slowflow"]*p["nutrientDWC"]*mgL)
		}
		for k, v := range o {
			if v < 0 {
				return "negative-load", f("%s=%g", k, v)
			}
		}
		return "", ""
	}))

	// --- bank erosion
	beBase := map[string]float64{"riparianVegPercent": 40, "maxRiparianVegEffectiveness": 95, "soilErodibility": 80, "bankErosionCoeff": 0.0001, "linkSlope": 0.002,
		"bankFullFlow": 50, "bankMgtFactor": 1, "sedBulkDensity": 1.5, "bankHeight": 2, "linkLength": 5000, "dailyFlowPowerFactor": 1.4, "longTermAvDailyFlow": 2e6, "soilPercentFine": 35, "durationInSeconds": 86400}
	ps, pn = G("BankErosion", beBase, []gridx.Axis{A("soilPercentFine", 0, 35, 100), A("riparianVegPercent", 0, 40, 100), A("durationInSeconds", 3600, 86400), A("longTermAvDailyFlow", 0, 2e6), A("dailyFlowPowerFactor", 0, 1.4)}) // power 0: flow^0 = 1 for any positive flow, and nothing without flow
	out = append(out, mk("BankErosion", ps, pn, L([]float64{0, 0.5, 30, 400}, []float64{0, 1e5}), T, func(p, in, o map[string]float64) (string, string) {
		fine, coarse := o["bankErosionFine"], o["bankErosionCoarse"]
		if fine < 0 || coarse < 0 {
			return "negative-load", f("fine=%g coarse=%g", fine, coarse)
		}
		if (in["downstreamFlowVolume"] == 0) && (fine != 0 || coarse != 0) {
			return "load-without-driver", f("flow=0 but fine=%g coarse=%g", fine, coarse)
		}
		tot := fine + coarse
		pf := p["soilPercentFine"] * pct
		if !eq(fine, tot*pf, tot) || !eq(coarse, tot*(1-pf), tot) {
			return "fine-coarse-not-split-by-fine-fraction", f("fine=%g coarse=%g fine-fraction=%g", fine, coarse, pf)
		}
		// independent total: mean annual erosion x discharge factor / days per year, t->kg, per second
		if in["downstreamFlowVolume"] > 0 && in["totalVolume"] > 0 && p["longTermAvDailyFlow"] > 0 {
			erod := (1 - math.Min(p["riparianVegPercent"]/100, p["maxRiparianVegEffectiveness"]/100)) * (p["soilErodibility"] / 100)
			retreat := p["bankErosionCoeff"] * 1000 * 9.81 * p["linkSlope"] * p["bankFullFlow"] * p["bankMgtFactor"]
			mean := p["sedBulkDensity"] * p["bankHeight"] * p["linkLength"] * retreat * erod
			ldf := math.Pow(in["downstreamFlowVolume"]*p["durationInSeconds"], p["dailyFlowPowerFactor"]) / p["longTermAvDailyFlow"]
			want := mean * ldf / 365.25 * t2kg / p["durationInSeconds"]
			if math.Abs(tot-want) > 1e-9*math.Abs(want) {
				return "total-not-mean-annual-times-discharge-factor", f("fine+coarse=%g want %g", tot, want)
			}
		} else if tot != 0 {
			return "load-without-driver", f("no flow/volume/long-term flow but total=%g", tot)
		}
		return "", ""
	}))

	// --- USLE
	usBase := map[string]float64{"S": 400, "P": 900, "RainThreshold": 12.7, "Alpha": 0.03, "Beta": 1.5, "Eta": 0.3, "A1": 1, "A2": 1, "A3": 1, "DWC": 5, "avK": 0.03, "avLS": 2, "avFines": 40,
		"area": 2e6, "maxConc": 10000, "usleHSDRFine": 15, "usleHSDRCoarse": 5, "timeStepInSeconds": 86400}
	ps, pn = G("USLEFineSedimentGeneration", usBase, []gridx.Axis{A("usleHSDRFine", 0, 15, 100), A("usleHSDRCoarse", 0, 5), A("maxConc", 10, 10000), A("DWC", 0, 5), A("timeStepInSeconds", 3600, 86400)})
	usL := L([]float64{0, 0.8}, []float64{0, 0.2}, []float64{0, 5, 12.7, 40}, []float64{0.9}, []float64{0, 0.3}, []float64{0.2}, []float64{15, 200})
	out = append(out, mk("USLEFineSedimentGeneration", ps, pn, usL, T-1, func(p, in, o map[string]float64) (string, string) {
		for k, v := range o {
			if v < 0 {
				return "negative-load", f("%s=%g", k, v)
			}
		}
		if !eq(o["totalFineLoad"], o["quickLoadFine"]+o["slowLoadFine"]) {
			return "total-not-quick-plus-slow", f("totalFine=%g quick+slow=%g", o["totalFineLoad"], o["quickLoadFine"]+o["slowLoadFine"])
		}
		if !eq(o["totalCoarseLoad"], o["quickLoadCoarse"]+o["slowLoadCoarse"]) {
			return "total-not-quick-plus-slow", f("totalCoarse=%g quick+slow=%g", o["totalCoarseLoad"], o["quickLoadCoarse"]+o["slowLoadCoarse"])
		}
		if !eq(o["slowLoadFine"], in["baseflow"]*p["DWC"]*mgL) {
			return "slow-not-linear-in-flow-and-concentration", f("slowFine=%g want %g", o["slowLoadFine"], in["baseflow"]*p["DWC"]*mgL)
		}
		if !eq(o["quickLoadFine"], o["generatedLoadFine"]*(p["usleHSDRFine"]*pct)) || !eq(o["quickLoadCoarse"], o["generatedLoadCoarse"]*(p["usleHSDRCoarse"]*pct)) {
			return "delivered-not-generated-times-delivery-ratio", f("quickFine=%g generatedFine=%g hsdrFine=%g; quickCoarse=%g generatedCoarse=%g hsdrCoarse=%g", o["quickLoadFine"], o["generatedLoadFine"], p["usleHSDRFine"], o["quickLoadCoarse"], o["generatedLoadCoarse"], p["usleHSDRCoarse"])
		}
		erosive := in["rainfall"] > p["RainThreshold"]
		if (!erosive || in["quickflow"] == 0 || in["KLSC"] == 0) && (o["generatedLoadFine"] != 0 || o["generatedLoadCoarse"] != 0 || o["quickLoadFine"] != 0 || o["quickLoadCoarse"] != 0) {
			return "load-without-driver", f("rain=%g (threshold %g) quickflow=%g KLSC=%g but generated fine=%g coarse=%g", in["rainfall"], p["RainThreshold"], in["quickflow"], in["KLSC"], o["generatedLoadFine"], o["generatedLoadCoarse"])
		}
		// split by the fine fraction KLSC_Fine/KLSC (unaffected by the concentration cap, which scales both)
		gf, gc := o["generatedLoadFine"], o["generatedLoadCoarse"]
		if in["KLSC"] > 0 && !eq(gf*(in["KLSC"]-in["KLSC_Fine"]), gc*in["KLSC_Fine"], gf*in["KLSC"]) {
			return "fine-coarse-not-split-by-fine-fraction", f("generatedFine=%g generatedCoarse=%g KLSC=%g KLSC_Fine=%g", gf, gc, in["KLSC"], in["KLSC_Fine"])
		}
		if erosive && in["quickflow"] > 0 && in["KLSC"] > 0 {
			R := p["Alpha"] * (1 + p["Eta"]*math.Cos(2*math.Pi*(in["dayOfYear"]-15)/365)) * math.Pow(in["rainfall"], p["Beta"])
			kgFine := R * in["KLSC_Fine"] * p["area"] * 1e-4 * t2kg
			capKg := p["maxConc"] * (in["quickflow"] * 86400 * 1e-3 * 1e6) / 1e6
			want := math.Min(kgFine, capKg) / p["timeStepInSeconds"]
			if math.Abs(gf-want) > 1e-9*math.Abs(want) {
				return "generated-fine-not-usle", f("generatedFine=%g want %g", gf, want)
			}
		}
		return "", ""
	}))

	// --- gully models
	for _, model := range []string{"DynamicSednetGully", "DynamicSednetGullyAlt"} {
		model := model
		gb := map[string]float64{"YearDisturbance": 1900, "GullyEndYear": 2050, "Area": 2e6, "averageGullyActivityFactor": 0.4, "GullyAnnualAverageSedimentSupply": 500, "GullyPercentFine": 35,
			"managementPracticeFactor": 0.8, "longtermRunoffFactor": 3, "dailyRunoffPowerFactor": 1.2, "sdrFine": 60, "sdrCoarse": 10, "timeStepInSeconds": 86400}
		ps, pn = G(model, gb, []gridx.Axis{A("GullyPercentFine", 0, 35, 100), A("sdrFine", 0, 60, 100), A("sdrCoarse", 0, 10), A("GullyAnnualAverageSedimentSupply", 0, 500), A("longtermRunoffFactor", 0, 3), A("timeStepInSeconds", 3600, 86400)})
		gl := L([]float64{0, 0.4, 6}, []float64{1850, 2000, 2060}, []float64{0, 250}, []float64{0, 800})
		out = append(out, mk(model, ps, pn, gl, T-1, func(p, in, o map[string]float64) (string, string) {
			for k, v := range o {
				if v < 0 {
					return "negative-load", f("%s=%g", k, v)
				}
			}
			gf, gc := o["generatedFine"], o["generatedCoarse"]
			if !eq(o["fineLoad"], gf*(p["sdrFine"]*pct)) || !eq(o["coarseLoad"], gc*(p["sdrCoarse"]*pct)) {
				return "delivered-not-generated-times-delivery-ratio", f("fineLoad=%g generatedFine=%g sdrFine=%g; coarseLoad=%g generatedCoarse=%g sdrCoarse=%g", o["fineLoad"], gf, p["sdrFine"], o["coarseLoad"], gc, p["sdrCoarse"])
			}
			supply := p["GullyAnnualAverageSedimentSupply"]
			if model == "DynamicSednetGullyAlt" {
				supply = in["annualLoad"]
			}
			if (in["quickflow"] == 0 || supply == 0 || in["year"] < p["YearDisturbance"] || in["AnnualRunoff"] == 0) && (gf != 0 || gc != 0 || o["fineLoad"] != 0 || o["coarseLoad"] != 0) {
				return "load-without-driver", f("quickflow=%g supply=%g year=%g but generated fine=%g coarse=%g", in["quickflow"], supply, in["year"], gf, gc)
			}
			pf := p["GullyPercentFine"] / 100
			if in["year"] <= p["GullyEndYear"] {
				// activity factor 1: material is split by the fine fraction
				if !eq(gf*(1-pf), gc*pf, gf, gc) {
					return "fine-coarse-not-split-by-fine-fraction", f("generatedFine=%g generatedCoarse=%g fine-fraction=%g", gf, gc, pf)
				}
			}
			return "", ""
		}))
	}
	// single calls over long series (1024 = a multiple of every power-of-two block size up to 1024; 1027 = no such multiple)
	for _, s := range append([]*gridx.Space{}, out...) {
		out = append(out, s.LongClones([]int{1024, 1027}, 4)...)
	}
	return out
}

// rating curve partition: tables of 2..4 points.
func ratingSpaces(T int) []*gridx.Space {
	type tbl struct {
		xs, ys []float64
	}
	tables := []tbl{
		{[]float64{0, 100}, []float64{0, 1}},
		{[]float64{0, 100}, []float64{0.35, 0.35}},
		{[]float64{0, 10, 100}, []float64{0, 0.2, 1}},
		{[]float64{0, 10, 100}, []float64{1, 0.35, 0}},
		{[]float64{0, 0.3, 7, 1250.5}, []float64{0, 0.1, 0.35, 0.9}},
	}
	var out []*gridx.Space
	for k, tb := range tables {
		tb := tb
		n := len(tb.xs)
		params := append([]float64{float64(n)}, append(append([]float64{}, tb.xs...), tb.ys...)...)
		letters := [][]float64{}
		seen := map[float64]bool{}
		add := func(v float64) {
			if !seen[v] {
				seen[v] = true
				letters = append(letters, []float64{v})
			}
		}
		for i, x := range tb.xs {
			add(x)
			if i+1 < n {
				add((x + tb.xs[i+1]) / 2)
				add(x + (tb.xs[i+1]-x)/4)
			}
		}
		ref := func(x float64) float64 {
			for i := 0; i+1 < n; i++ {
				if x >= tb.xs[i] && x <= tb.xs[i+1] {
					return tb.ys[i] + (x-tb.xs[i])/(tb.xs[i+1]-tb.xs[i])*(tb.ys[i+1]-tb.ys[i])
				}
			}
			return math.NaN()
		}
		s := &gridx.Space{Name: fmt.Sprintf("RatingCurvePartition/table%d(n=%d)", k, n), Model: "RatingCurvePartition", Params: [][]float64{params}, PNames: []string{fmt.Sprintf("xs=%v ys=%v", tb.xs, tb.ys)}, Letters: letters, T: T}
		s.Oracle = func(c *gridx.Case, r *vf.Rec) {
			res := c.Run()
			for t := 0; t < c.T; t++ {
				x := c.Inputs[0][t]
				o1, o2 := res.Out[0][t], res.Out[1][t]
				d := map[string]interface{}{"t": t, "input": x, "output1": o1, "output2": o2, "xs": tb.xs, "ys": tb.ys}
				if !eq(o1+o2, x, o1, o2) {
					r.Failf("C16/RatingCurvePartition/outputs-do-not-sum-to-input", d, "table n=%d input=%g: output1+output2=%g", n, x, o1+o2)
					return
				}
				if math.Abs(o1-x*ref(x)) > 1e-12*math.Abs(x)+1e-300 {
					r.Failf("C16/RatingCurvePartition/output1-not-rated-fraction", d, "table n=%d input=%g: output1=%g, want input*interp=%g", n, x, o1, x*ref(x))
					return
				}
			}
			r.MarkNontrivial()
		}
		out = append(out, s)
	}
	return out
}

var _ = mrun.SameBits

func Spec() *vf.Check {
	return &vf.Check{
		ID: "C16", Level: "exploration", BlockSize: 2048,
		Rule: "per model: full-factorial parameter grid (fractions 0/0.2/0.35/1, percents 0/35/100, concentrations 0/0.1/250, table sizes 2-4) x every word of length T over the product alphabet of input values (incl. 0, negatives where meaningful, table end points); " +
			"the model's identity is evaluated at every timestep. distinct_nontrivial = cases (distinct by construction) with at least one non-zero output.",
		Assumptions: []string{"unit factors recomputed independently: mg/L->kg/m3 = 1e-3, mm->m = 1e-3, % -> proportion = 0.01, t->kg = 1e3",
			"gully models: the fine/coarse split identity is required only while the activity factor is 1 (year <= GullyEndYear); the activity factor applies to fine material only in the code and the statement does not define the split there",
			"values between lattice points are not covered"},
		Build: func(tier string) vf.Enumeration { return gridx.NewEnum("C16", spaces(tier)) },
	}
}
