// Package c18: FindRoot and Piecewise meet their numerical contracts.
package c18

import (
	"fmt"
	"math"

	"github.com/flowmatters/openwater-core/data"
	"github.com/flowmatters/openwater-core/util/fn"
	"owverif.local/verif/vf"
)

// ---------------------------------------------------------------------------------------------
// FindRoot

type fam struct {
	name     string
	min, max float64
	f        func(x float64) float64
	monotone bool
}

func families() []fam {
	var out []fam
	add := func(name string, lo, hi float64, mono bool, f func(float64) float64) {
		out = append(out, fam{name, lo, hi, f, mono})
	}
	for _, a := range []float64{0.5, 3} {
		for _, r := range []float64{0.3, -0.7, -1, 1} {
			a, r := a, r
			add(fmt.Sprintf("linear(a=%g,root=%g)", a, r), -1, 1, true, func(x float64) float64 { return a * (x - r) })
		}
	}
	add("linear-wide(root=37)", 0, 100, true, func(x float64) float64 { return 2 * (x - 37) })
	for _, r := range []float64{0.3, -0.7, 0} {
		for _, c := range []float64{0, 0.5} {
			r, c := r, c
			add(fmt.Sprintf("cubic(root=%g,c=%g)", r, c), -1, 1, true, func(x float64) float64 { d := x - r; return d*d*d + c*d })
		}
	}
	for _, k := range []float64{0.5, 5} {
		for _, r := range []float64{0.3, -0.7} {
			k, r := k, r
			add(fmt.Sprintf("satexp(k=%g,root=%g)", k, r), -1, 1, true, func(x float64) float64 { return 1 - math.Exp(-k*(x-r)) })
		}
	}
	// piecewise linear: flat through the root, flat beside the root, kink at the root
	add("flat-through-root[-0.2,0.4]", -1, 1, true, func(x float64) float64 { return math.Max(0, x-0.4) - math.Max(0, -0.2-x) })
	add("flat-beside-root", -1, 1, true, func(x float64) float64 { return math.Max(-1, math.Min(1, 5*(x-0.3))) })
	add("kink-at-root(0.2,4)", -1, 1, true, func(x float64) float64 { return 0.2*math.Min(x-0.3, 0) + 4*math.Max(x-0.3, 0) })
	add("kink-at-root(4,0.2)", -1, 1, true, func(x float64) float64 { return 4*math.Min(x+0.5, 0) + 0.2*math.Max(x+0.5, 0) })
	add("antisymmetric-ends-root-0.3", -1, 1, true, func(x float64) float64 {
		if x < 0.3 {
			return (x - 0.3) / 1.3
		}
		return (x - 0.3) / 0.7
	})
	for _, kink := range []float64{0.5, 0.8, 0.9, 0.95} {
		for _, lowv := range []float64{0.05, 0.3} {
			kink, lowv := kink, lowv
			// flat-ish then steep: value -lowv at 0, rises slowly to the kink, then steeply to +1 at 1 (root just after the kink)
			add(fmt.Sprintf("flat-then-steep(kink=%g,f0=-%g)", kink, lowv), 0, 1, true, func(x float64) float64 {
				if x <= kink {
					return -lowv + 0.5*lowv*x/kink
				}
				return -0.5*lowv + (1+0.5*lowv)*(x-kink)/(1-kink)
			})
			// mirror image: steep then flat (root just before the kink)
			add(fmt.Sprintf("steep-then-flat(kink=%g,f1=%g)", 1-kink, lowv), 0, 1, true, func(x float64) float64 {
				y := 1 - x
				if y <= kink {
					return -(-lowv + 0.5*lowv*y/kink)
				}
				return -(-0.5*lowv + (1+0.5*lowv)*(y-kink)/(1-kink))
			})
		}
	}
	add("steep-ramp(k=1000)", -1, 1, true, func(x float64) float64 { return math.Tanh(1000 * (x - 0.123)) })
	// the shape of the storage-routing residual: q*dt + k*q^m + dead - S, with a max(0,.) kink
	add("routing-residual(m=0.8)", 0, 50, true, func(q float64) float64 { return q*86400 + 86400*math.Pow(q, 0.8) - 1e6 })
	add("routing-residual(m=0.6,dead)", 0, 20, true, func(q float64) float64 { return q*86400 + 172800*math.Pow(q, 0.6) + math.Max(0, q-5)*1e4 - 4e5 })
	// strongly convex / concave monotone functions on which a secant iteration keeps one bracket end (stalls)
	for _, pw := range []float64{4, 8} {
		for _, c := range []float64{0.01, 0.3} {
			pw, c := pw, c
			add(fmt.Sprintf("power(x^%g-%g)", pw, c), 0, 1, true, func(x float64) float64 { return math.Pow(x, pw) - c })
			add(fmt.Sprintf("power-mirrored(%g-(1-x)^%g)", c, pw), 0, 1, true, func(x float64) float64 { return c - math.Pow(1-x, pw) })
		}
	}
	// strongly concave / convex with the root close to an end: after one or two iterations every trial point lies on
	// one side of the root, and the end that did not move is still the better one
	for _, c := range []float64{0.01, 0.1} {
		c := c
		add(fmt.Sprintf("sqrt(x)-%g", c), 0, 1, true, func(x float64) float64 { return math.Sqrt(math.Max(x, 0)) - c })
		add(fmt.Sprintf("%g-sqrt(1-x)", c), 0, 1, true, func(x float64) float64 { return c - math.Sqrt(math.Max(1-x, 0)) })
	}
	// the root exactly at (or a hair inside) an end of an interval whose ends are not dyadic: f(min) = 0 or f(max) = 0
	// is allowed by the statement, and the secant point max-(max-min)*fmax/(fmax-fmin) is then computed at the very end
	ends := []float64{-2, -0.7, 0, 0.1, 0.3, 0.7, 1, 10}
	for i, lo := range ends {
		for _, hi := range ends[i+1:] {
			lo, hi := lo, hi
			for _, a := range []float64{0.5, 3} {
				a := a
				add(fmt.Sprintf("root-at-min(a=%g,[%g,%g])", a, lo, hi), lo, hi, true, func(x float64) float64 { return a * (x - lo) })
				add(fmt.Sprintf("root-at-max(a=%g,[%g,%g])", a, lo, hi), lo, hi, true, func(x float64) float64 { return a * (x - hi) })
			}
			add(fmt.Sprintf("root-just-inside-min([%g,%g])", lo, hi), lo, hi, true, func(x float64) float64 { return (x - lo) - 1e-13*(hi-lo) })
			add(fmt.Sprintf("flat-zero-then-rising([%g,%g])", lo, hi), lo, hi, true, func(x float64) float64 { return math.Max(0, x-(lo+0.25*(hi-lo))) })
		}
	}
	// re-entrancy: the function being solved runs a root search of its own at every evaluation (as a kernel that solves
	// a sub-problem per trial would); FindRoot must not keep anything of a call outside that call
	inner := func() float64 {
		x, _ := fn.FindRoot(func(y float64) float64 { d := y - 0.3; return d*d*d + 0.5*d }, nil, 12.5, -40, 60, 1e-12, 1e-14, 80)
		return x
	}
	add("nested-search(x-inner-root-0.3)", -1, 1, true, func(x float64) float64 { return x - inner() })
	add("nested-search(3*(x+0.7)+0*inner)", -1, 1, true, func(x float64) float64 { return 3*(x+0.7) + 0*inner() })
	// non-monotone with a bracketed sign change
	add("three-roots", -1, 1, false, func(x float64) float64 { return (x + 0.8) * (x - 0.1) * (x - 0.7) })
	add("damped-sine", 0, 3, false, func(x float64) float64 { return math.Exp(-x)*math.Sin(5*x) + 0.05*(x-1.5) })
	return out
}

var (
	derivKinds = []string{"exact", "nil", "zero", "wrong-sign", "slope-bound", "half-slope", "constant-1"}
	guesses    = []float64{0, 0.25, 0.5, 1}
	tols       = []float64{1e-3, 1e-6, 1e-9}
	convs      = []float64{1e-8, 1e-12}
	budgets    = []int{0, 1, 2, 3, 4, 5, 6, 7, 8, 10, 12, 15, 20, 25, 30, 40, 60}
)

type rootCase struct {
	f      fam
	deriv  string
	guess  float64
	tol    float64
	conv   float64
	budget int
}

func rootRadices() []int {
	return []int{len(families()), len(derivKinds), len(guesses), len(tols), len(convs), len(budgets)}
}

func decodeRoot(i int64) rootCase {
	d := vf.Radix(i, rootRadices())
	return rootCase{families()[d[0]], derivKinds[d[1]], guesses[d[2]], tols[d[3]], convs[d[4]], budgets[d[5]]}
}

func lipschitz(f fam) float64 {
	const n = 200000
	L := 0.0
	h := (f.max - f.min) / n
	prev := f.f(f.min)
	for k := 1; k <= n; k++ {
		v := f.f(f.min + float64(k)*h)
		L = math.Max(L, math.Abs(v-prev)/h)
		prev = v
	}
	return L * 1.05
}

var lipCache = map[string]float64{}

func runRoot(rc rootCase, r *vf.Rec) {
	f := rc.f
	var pts []float64
	logged := func(x float64) float64 {
		pts = append(pts, x)
		return f.f(x)
	}
	var dfn func(float64) float64
	h := 1e-6 * (f.max - f.min)
	exact := func(x float64) float64 { return (f.f(x+h) - f.f(x-h)) / (2 * h) }
	switch rc.deriv {
	case "exact":
		dfn = exact
	case "zero":
		dfn = func(float64) float64 { return 0 }
	case "wrong-sign":
		dfn = func(x float64) float64 { return -exact(x) }
	case "slope-bound": // a conservative constant (a Lipschitz bound) instead of the derivative
		L, ok := lipCache[f.name]
		if !ok {
			L = lipschitz(f)
			lipCache[f.name] = L
		}
		dfn = func(float64) float64 { return L }
	case "half-slope":
		dfn = func(x float64) float64 { return 0.5 * exact(x) }
	case "constant-1":
		dfn = func(float64) float64 { return 1 }
	}
	x0 := f.min + rc.guess*(f.max-f.min)
	if rc.guess == 1 || x0 > f.max { // min + (max-min) can round past max
		x0 = f.max
	}
	d := map[string]interface{}{"function": f.name, "interval": []float64{f.min, f.max}, "derivative": rc.deriv, "initial_guess": x0, "tolerance": rc.tol, "convergence_limit": rc.conv, "max_iterations": rc.budget}
	var x, val float64
	panicked := func() (p interface{}) {
		defer func() { p = recover() }()
		x, val = fn.FindRoot(logged, dfn, x0, f.min, f.max, rc.tol, rc.conv, rc.budget)
		return nil
	}()
	cls := "non-monotone"
	if f.monotone {
		cls = "monotone"
	}
	if panicked != nil {
		d["panic"] = fmt.Sprint(panicked)
		r.Failf("C18/FindRoot/panic/"+cls, d, "FindRoot(%s) panicked: %v", f.name, panicked)
		return
	}
	d["x"], d["value"], d["evaluations"] = x, val, len(pts)
	r.Count("findroot_function_evaluations", int64(len(pts)))
	if math.IsNaN(x) || x < f.min || x > f.max {
		r.Failf("C18/FindRoot/result-outside-interval/"+cls, d, "FindRoot(%s): x=%v outside [%g,%g]", f.name, x, f.min, f.max)
		return
	}
	if fx := f.f(x); !(fx == val) {
		d["f_at_x"] = fx
		r.Failf("C18/FindRoot/value-is-not-f-at-x/"+cls, d, "FindRoot(%s): returned value %v but f(%v)=%v", f.name, val, x, fx)
		return
	}
	for _, p := range pts {
		if math.IsNaN(p) || p < f.min || p > f.max {
			d["bad_point"] = p
			r.Failf("C18/FindRoot/evaluated-outside-interval/"+cls, d, "FindRoot(%s): evaluated f at %v outside [%g,%g]", f.name, p, f.min, f.max)
			return
		}
	}
	if f.monotone {
		best := math.Min(math.Abs(f.f(f.min)), math.Abs(f.f(f.max)))
		if math.Abs(val) > best {
			r.Failf("C18/FindRoot/worse-than-initial-bracket", d, "FindRoot(%s): |value|=%g larger than the better bracket end %g", f.name, math.Abs(val), best)
			return
		}
		L, ok := lipCache[f.name]
		if !ok {
			L = lipschitz(f)
			lipCache[f.name] = L
		}
		// after n iterations the bracket (which always contains the halving point) is at most (max-min)/2^n wide,
		// so the better end is within L*width of zero: when that is below the tolerance the result must be too.
		width := (f.max - f.min) / math.Pow(2, float64(rc.budget))
		if L*math.Max(width, 2*rc.conv) < 0.5*rc.tol && !(math.Abs(val) < rc.tol) { // (the search may also stop once the bracket is narrower than 2*convergenceLimit)
			d["lipschitz"], d["bracket_width_after_budget"] = L, width
			g := "guess-interior"
			if rc.guess == 0 || rc.guess == 1 {
				g = "guess-at-end"
			}
			r.Failf("C18/FindRoot/tolerance-not-reached-although-halving-suffices/"+g, d, "FindRoot(%s): |value|=%g >= tolerance %g although %d halvings bring the bracket to %g (slope <= %g)", f.name, math.Abs(val), rc.tol, rc.budget, width, L)
			return
		}
	}
	if math.Abs(val) < rc.tol {
		r.Count("findroot_converged", 1)
	}
	r.MarkNontrivial()
}

// ---------------------------------------------------------------------------------------------
// Piecewise

var knotPool = []float64{-2, 0, 0.1, 0.3, 0.7, 1, 10}
var yPool = []float64{-1, 0, 0.1, 0.3, 0.7, 5}

type pwTable struct{ xs, ys []float64 }

// tables enumerates all strictly increasing knot vectors of length 2..maxN with all y assignments.
type pwIndex struct {
	subsets [][]int // knot index subsets
	off     []int64
}

func newPwIndex(maxN int) *pwIndex {
	p := &pwIndex{}
	o := int64(0)
	for n := 2; n <= maxN; n++ {
		var rec func(start int, cur []int)
		rec = func(start int, cur []int) {
			if len(cur) == n {
				p.subsets = append(p.subsets, append([]int{}, cur...))
				p.off = append(p.off, o)
				o += vf.Pow(len(yPool), n)
				return
			}
			for k := start; k < len(knotPool); k++ {
				rec(k+1, append(cur, k))
			}
		}
		rec(0, nil)
	}
	p.off = append(p.off, o)
	return p
}

func (p *pwIndex) n() int64 { return p.off[len(p.off)-1] }
func (p *pwIndex) table(i int64) pwTable {
	k := 0
	for k+1 < len(p.subsets) && p.off[k+1] <= i {
		k++
	}
	sub := p.subsets[k]
	w := vf.Word(i-p.off[k], len(yPool), len(sub))
	t := pwTable{}
	for j, ki := range sub {
		t.xs = append(t.xs, knotPool[ki])
		t.ys = append(t.ys, yPool[w[j]])
	}
	return t
}

func arr1(v []float64) data.ND1Float64 {
	a := data.NewArray1DFloat64(len(v))
	for i, x := range v {
		a.Set1(i, x)
	}
	return a
}

// column returns v as a strided column view of a 2-D array (non-contiguous).
func column(v []float64) data.ND1Float64 {
	a := data.NewArray2DFloat64(len(v), 3)
	for i, x := range v {
		a.Set2(i, 0, -77)
		a.Set2(i, 1, x)
		a.Set2(i, 2, 99)
	}
	return a.Slice([]int{0, 1}, []int{len(v), 1}, nil).MustReshape([]int{len(v)}).(data.ND1Float64)
}

func stepped(v []float64) data.ND1Float64 {
	a := data.NewArray1DFloat64(2*len(v) + 1)
	for i := 0; i < 2*len(v)+1; i++ {
		a.Set1(i, -55)
	}
	for i, x := range v {
		a.Set1(2*i+1, x)
	}
	return a.Slice([]int{1}, []int{len(v)}, []int{2}).(data.ND1Float64)
}

func runPw(t pwTable, r *vf.Rec) {
	n := len(t.xs)
	type q struct {
		x    float64
		kind string
		k    int
	}
	var qs []q
	for k := 0; k < n; k++ {
		qs = append(qs, q{t.xs[k], "knot", k})
		if k+1 < n {
			a, b := t.xs[k], t.xs[k+1]
			qs = append(qs, q{a + (b-a)/2, "interior", k}, q{a + (b-a)/4, "interior", k}, q{a + (b-a)*0.75, "interior", k}, q{math.Nextafter(b, a), "interior", k}, q{math.Nextafter(a, b), "interior", k})
		}
	}
	if t.xs[0]-1 < t.xs[0] { // (at 1e300 a unit step is absorbed)
		qs = append(qs, q{t.xs[0] - 1, "outside", 0})
	}
	if t.xs[n-1]+1 > t.xs[n-1] {
		qs = append(qs, q{t.xs[n-1] + 1, "outside", 0})
	}
	qs = append(qs, q{math.Nextafter(t.xs[0], math.Inf(-1)), "outside", 0}, q{math.Nextafter(t.xs[n-1], math.Inf(1)), "outside", 0},
		q{math.NaN(), "nan", 0}, q{math.Inf(1), "outside", 0}, q{math.Inf(-1), "outside", 0})
	layouts := []struct {
		name   string
		xs, ys data.ND1Float64
	}{{"contiguous", arr1(t.xs), arr1(t.ys)}, {"column-view", column(t.xs), column(t.ys)}, {"stepped-view", stepped(t.xs), stepped(t.ys)}}
	for _, lay := range layouts {
		for _, qq := range qs {
			y, err := fn.Piecewise(qq.x, lay.xs, lay.ys)
			r.Count("piecewise_queries", 1)
			d := map[string]interface{}{"xs": t.xs, "ys": t.ys, "x": qq.x, "y": y, "error": fmt.Sprint(err), "layout": lay.name}
			switch qq.kind {
			case "outside", "nan":
				if err == nil {
					r.Failf("C18/Piecewise/number-for-argument-outside-table/"+qq.kind, d, "Piecewise(%v) on xs=%v returned %v without an error", qq.x, t.xs, y)
					return
				}
			case "knot":
				if err != nil {
					r.Failf("C18/Piecewise/error-at-knot", d, "Piecewise at knot %v of xs=%v: %v", qq.x, t.xs, err)
					return
				}
				if y != t.ys[qq.k] {
					pos := "interior-or-last-knot"
					if qq.k == 0 {
						pos = "first-knot"
					}
					r.Failf("C18/Piecewise/knot-value-not-exact/"+pos, d, "Piecewise at knot x=%v: got %v, table value %v (xs=%v ys=%v)", qq.x, y, t.ys[qq.k], t.xs, t.ys)
					return
				}
			case "interior":
				if err != nil {
					r.Failf("C18/Piecewise/error-inside-table", d, "Piecewise(%v) on xs=%v: %v", qq.x, t.xs, err)
					return
				}
				y0, y1 := t.ys[qq.k], t.ys[qq.k+1]
				lo, hi := math.Min(y0, y1), math.Max(y0, y1)
				if y < lo || y > hi || math.IsNaN(y) {
					r.Failf("C18/Piecewise/interpolant-outside-neighbouring-values", d, "Piecewise(%v) = %v outside [%v,%v] (xs=%v ys=%v)", qq.x, y, lo, hi, t.xs, t.ys)
					return
				}
				want := y0 + (qq.x-t.xs[qq.k])/(t.xs[qq.k+1]-t.xs[qq.k])*(y1-y0)
				if math.Abs(y-want) > 1e-12*math.Max(math.Abs(y0), math.Abs(y1))+1e-300 {
					r.Failf("C18/Piecewise/not-linear-interpolant", d, "Piecewise(%v) = %v, linear interpolant %v", qq.x, y, want)
					return
				}
			}
		}
	}
	r.MarkNontrivial()
}

// runPwPair: a lookup must not depend on earlier lookups. For the ordered pair of knot vectors (A, B): every admissible
// lookup in A followed by every lookup in B (B a different array object, and B written into A's array object in
// place); the second result is compared with the interpolant computed here from B alone.
func runPwPair(xa, xb []float64, r *vf.Rec) {
	ysFor := func(xs []float64, variant int) []float64 {
		ys := make([]float64, len(xs))
		for i := range ys {
			if variant == 0 {
				ys[i] = 100 * float64(i)
			} else {
				ys[i] = float64((i*7)%5) - 1.5
			}
		}
		return ys
	}
	queries := func(xs []float64) []float64 {
		var q []float64
		for k := range xs {
			q = append(q, xs[k])
			if k+1 < len(xs) {
				q = append(q, xs[k]+(xs[k+1]-xs[k])/2, xs[k]+(xs[k+1]-xs[k])/8)
			}
		}
		return q
	}
	want := func(x float64, xs, ys []float64) float64 {
		if x == xs[0] {
			return ys[0]
		}
		for k := 0; k+1 < len(xs); k++ {
			if x > xs[k] && x <= xs[k+1] {
				if x == xs[k+1] {
					return ys[k+1]
				}
				return ys[k] + (x-xs[k])/(xs[k+1]-xs[k])*(ys[k+1]-ys[k])
			}
		}
		return math.NaN()
	}
	for variant := 0; variant < 2; variant++ {
		ya, yb := ysFor(xa, variant), ysFor(xb, variant)
		for _, inPlace := range []bool{false, true} {
			if inPlace && len(xa) != len(xb) {
				continue
			}
			for _, qa := range queries(xa) {
				for _, qb := range queries(xb) {
					axs, ays := arr1(xa), arr1(ya)
					if _, err := fn.Piecewise(qa, axs, ays); err != nil {
						r.Failf("C18/Piecewise/error-inside-table", map[string]interface{}{"xs": xa, "x": qa, "error": fmt.Sprint(err)}, "Piecewise(%v) on xs=%v: %v", qa, xa, err)
						return
					}
					bxs, bys := arr1(xb), arr1(yb)
					how := "another-table"
					if inPlace {
						how = "same-array-rewritten-in-place"
						for i := range xb {
							axs.Set1(i, xb[i])
							ays.Set1(i, yb[i])
						}
						bxs, bys = axs, ays
					}
					y, err := fn.Piecewise(qb, bxs, bys)
					r.Count("piecewise_second_lookups", 1)
					w := want(qb, xb, yb)
					if err != nil || math.Abs(y-w) > 1e-12*math.Max(1, math.Abs(w)) {
						r.Failf("C18/Piecewise/lookup-depends-on-the-previous-lookup/"+how, map[string]interface{}{"first_xs": xa, "first_x": qa, "xs": xb, "ys": yb, "x": qb, "y": y, "want": w, "error": fmt.Sprint(err)},
							"after Piecewise(%v) on xs=%v, Piecewise(%v) on xs=%v ys=%v returned %v (err %v), the interpolant is %v", qa, xa, qb, xb, yb, y, err, w)
						return
					}
				}
			}
		}
	}
	r.MarkNontrivial()
}

func (p *pwIndex) knots(k int) []float64 {
	var xs []float64
	for _, ki := range p.subsets[k] {
		xs = append(xs, knotPool[ki])
	}
	return xs
}

// ---------------------------------------------------------------------------------------------

// longTables: tables longer than the exhaustive pool allows (any length >= 2 is in the statement): uniform and
// non-uniform knots, several y patterns, lengths around powers of two.
func longTables() []pwTable {
	var out []pwTable
	// strictly increasing knots that are extremely close together (adjacent floats, 4e-13 apart, a table at 1e-15 scale)
	out = append(out, pwTable{[]float64{0, 4e-13, 1}, []float64{1, 5, -2}}, pwTable{[]float64{0.5, math.Nextafter(0.5, 1), 2}, []float64{0, 7, 3}},
		pwTable{[]float64{1e-15, 2e-15, 3e-15, 5e-15}, []float64{0.3, -1, 4, 4.5}}, pwTable{[]float64{-1, 1 - 1e-13, 1}, []float64{2, 0, 9}},
		pwTable{[]float64{1e300, 1.5e300, 1.7e308}, []float64{-3, 0, 3}}, pwTable{[]float64{-5e-324, 0, 5e-324}, []float64{1, 2, 3}})
	for _, n := range []int{6, 7, 8, 9, 10, 12, 15, 16, 17, 31, 32, 33, 64, 100} {
		for variant := 0; variant < 3; variant++ {
			t := pwTable{}
			x := -3.0
			for i := 0; i < n; i++ {
				switch variant {
				case 0:
					x += 1
				case 1:
					x += 0.1 + float64(i%4)*0.7
				case 2:
					x += math.Pow(1.3, float64(i)) * 0.01
				}
				t.xs = append(t.xs, x)
				t.ys = append(t.ys, []float64{float64(i) * 0.7, float64((i*7)%5) - 1.5, 0.35}[variant])
			}
			out = append(out, t)
		}
	}
	return out
}

type enum struct {
	nRoot int64
	pw    *pwIndex
	long  []pwTable
}

func (e *enum) nPairs() int64 { return int64(len(e.pw.subsets)) * int64(len(e.pw.subsets)) }
func (e *enum) N() int64      { return e.nRoot + e.pw.n() + int64(len(e.long)) + e.nPairs() }
func (e *enum) Run(i int64, r *vf.Rec) {
	if i < e.nRoot {
		r.Count("cases/FindRoot", 1)
		runRoot(decodeRoot(i), r)
		return
	}
	if i < e.nRoot+e.pw.n() {
		r.Count("cases/Piecewise-tables", 1)
		runPw(e.pw.table(i-e.nRoot), r)
		return
	}
	if j := i - e.nRoot - e.pw.n(); j < int64(len(e.long)) {
		r.Count("cases/Piecewise-long-tables", 1)
		runPw(e.long[j], r)
		return
	}
	j := i - e.nRoot - e.pw.n() - int64(len(e.long))
	ns := int64(len(e.pw.subsets))
	r.Count("cases/Piecewise-ordered-table-pairs", 1)
	runPwPair(e.pw.knots(int(j/ns)), e.pw.knots(int(j%ns)), r)
}
func (e *enum) Describe(i int64) interface{} {
	if i < e.nRoot {
		rc := decodeRoot(i)
		return map[string]interface{}{"function": "FindRoot", "family": rc.f.name, "interval": []float64{rc.f.min, rc.f.max}, "derivative": rc.deriv, "initial_guess_fraction": rc.guess, "tolerance": rc.tol, "convergence_limit": rc.conv, "max_iterations": rc.budget}
	}
	var t pwTable
	if i < e.nRoot+e.pw.n() {
		t = e.pw.table(i - e.nRoot)
	} else if j := i - e.nRoot - e.pw.n(); j < int64(len(e.long)) {
		t = e.long[j]
	} else {
		j -= int64(len(e.long))
		ns := int64(len(e.pw.subsets))
		return map[string]interface{}{"function": "Piecewise, two lookups in a row", "first_xs": e.pw.knots(int(j / ns)), "second_xs": e.pw.knots(int(j % ns))}
	}
	return map[string]interface{}{"function": "Piecewise", "xs": t.xs, "ys": t.ys}
}
func (e *enum) CrashSig(i int64, tail string) (string, string) {
	return "C18/crash", "util/fn crashed the process"
}

func Spec() *vf.Check {
	return &vf.Check{
		ID: "C18", Level: "exploration", BlockSize: 512,
		Rule: "FindRoot: 231 functions on an interval (linear, cubic, the root exactly at / a hair inside either end of 28 intervals with non-dyadic ends, x^p-c and its mirror image (secant iterations stall), sqrt(x)-c and its mirror image (root near an end), two functions that run a root search of their own at every evaluation (re-entrancy), saturating exponential, piecewise-linear with flat segments and kinks, steep ramp, routing-residual shapes, antisymmetric end values, flat-then-steep / steep-then-flat kinks with the root near an end; non-monotone: three roots, damped sine) x derivative {exact,nil,zero,wrong sign,constant slope bound,half the slope,constant 1} x initial guess {min,1/4,1/2,max} x tolerance {1e-3,1e-6,1e-9} x convergence limit {1e-8,1e-12} x budget {0..8,10,12,15,20,25,30,40,60}; every evaluation point logged. " +
			"Piecewise: every strictly increasing knot vector of length 2..4 (quick) / 2..5 (thorough) from {-2,0,0.1,0.3,0.7,1,10} x every y assignment from {-1,0,0.1,0.3,0.7,5} x queries at every knot, mid/quarter points, the floats adjacent to each knot, below, above, NaN, +-Inf x {contiguous, column view, stepped view} tables; tables of 6..100 knots and tables whose neighbouring knots are adjacent floats / 4e-13 apart / at 1e-15, 1e300 and denormal scale; and every ORDERED pair of knot vectors: every lookup in the first followed by every lookup in the second (another array, and the same array rewritten in place), second result against the interpolant. distinct_nontrivial = cases that passed all clauses.",
		Assumptions: []string{"'budget suffices for interval halving' is taken as: slope bound x (max-min)/2^budget < tolerance/2 and slope bound x 2 x convergenceLimit < tolerance/2 (sound for any bracketing method that includes the midpoint every iteration and may stop once the bracket is narrower than twice the convergence limit)", "lattice values only"},
		Build: func(tier string) vf.Enumeration {
			maxN := 4
			if tier == "thorough" {
				maxN = 5
			}
			return &enum{nRoot: vf.RadixN(rootRadices()), pw: newPwIndex(maxN), long: longTables()}
		},
	}
}
