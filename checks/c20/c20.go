// Package c20: derived climate variables are physically ordered.
// Dense (T, RH, elevation) lattice, every point through the catalogued ClimateVariables model.
package c20

import (
	"fmt"
	"math"
	"sort"

	"owverif.local/verif/mrun"
	"owverif.local/verif/vf"
)

var elevs = []float64{0, 500, 1500, 3000, 6000, 10000}

func rhs() []float64 {
	out := []float64{0.01, 0.1, 1}
	for v := 5.0; v <= 95; v += 5 {
		out = append(out, v)
	}
	return append(out, 99, 99.9, 99.95, 99.97, 99.99, 99.999, 100)
}

func temps(step float64) []float64 {
	m := map[float64]bool{}
	for i := 0; ; i++ {
		t := -40 + float64(i)*step
		if t > 55+1e-9 {
			break
		}
		m[math.Round(t*1000)/1000] = true
	}
	for _, t := range []float64{-0.01, 0, 0.01, -0.001, 0.001, 55, -40} {
		m[t] = true
	}
	out := make([]float64, 0, len(m))
	for t := range m {
		out = append(out, t)
	}
	sort.Float64s(out)
	return out
}

type enum struct {
	T  []float64
	RH []float64
}

func (e *enum) N() int64 { return int64(len(elevs) * len(e.RH)) }
func (e *enum) Describe(i int64) interface{} {
	return map[string]interface{}{"model": "ClimateVariables", "elevation": elevs[int(i)/len(e.RH)], "humidity": e.RH[int(i)%len(e.RH)], "dryBulb": fmt.Sprintf("%d temperatures %g..%g", len(e.T), e.T[0], e.T[len(e.T)-1])}
}
func (e *enum) CrashSig(i int64, tail string) (string, string) {
	return "C20/crash", "ClimateVariables.Run crashed"
}

func tband(t float64) string {
	switch {
	case t < 0:
		return "T<0"
	case t == 0:
		return "T=0"
	case t <= 20:
		return "0<T<=20"
	}
	return "T>20"
}

func hband(h float64) string {
	switch {
	case h >= 100:
		return "RH=100"
	case h >= 99:
		return "99<=RH<100"
	case h < 1:
		return "RH<1"
	}
	return "1<=RH<99"
}

func (e *enum) column(elev, rh float64) mrun.Result {
	h := make([]float64, len(e.T))
	for i := range h {
		h[i] = rh
	}
	return mrun.RunCell("ClimateVariables", []float64{elev}, [][]float64{e.T, h}, len(e.T), nil)
}

// every lattice point must give the same answer wherever it sits in a series: the column is also run in
// descending temperature order and every point as a one-step run of its own (position independence),
// and each temperature as a row over all humidities in both orders.
func (e *enum) positionIndependent(elev, rh float64, res mrun.Result, r *vf.Rec) bool {
	n := len(e.T)
	rev := make([]float64, n)
	h := make([]float64, n)
	for i := range rev {
		rev[i] = e.T[n-1-i]
		h[i] = rh
	}
	down := mrun.RunCell("ClimateVariables", []float64{elev}, [][]float64{rev, h}, n, nil)
	for k := 0; k < n; k++ {
		single := mrun.RunCell("ClimateVariables", []float64{elev}, [][]float64{{e.T[k]}, {rh}}, 1, nil)
		for o := 0; o < 4; o++ {
			a, b, c := res.Out[o][k], down.Out[o][n-1-k], single.Out[o][0]
			if !mrun.SameBits(a, b) || !mrun.SameBits(a, c) {
				r.Failf("C20/output-depends-on-position-in-series/temperature-series", map[string]interface{}{"dryBulb": e.T[k], "humidity": rh, "elevation": elev, "output": o, "ascending_series": a, "descending_series": b, "single_step": c},
					"T=%g RH=%g elev=%g: output %d is %v in an ascending series, %v in a descending one, %v alone", e.T[k], rh, elev, o, a, b, c)
				return false
			}
		}
	}
	return true
}

func (e *enum) rowsIndependent(elev float64, ti int, r *vf.Rec) bool {
	t := e.T[ti]
	n := len(e.RH)
	ts := make([]float64, n)
	up := make([]float64, n)
	dn := make([]float64, n)
	for i := range ts {
		ts[i] = t
		up[i] = e.RH[i]
		dn[i] = e.RH[n-1-i]
	}
	a := mrun.RunCell("ClimateVariables", []float64{elev}, [][]float64{ts, up}, n, nil)
	b := mrun.RunCell("ClimateVariables", []float64{elev}, [][]float64{ts, dn}, n, nil)
	for k := 0; k < n; k++ {
		for o := 0; o < 4; o++ {
			if !mrun.SameBits(a.Out[o][k], b.Out[o][n-1-k]) {
				r.Failf("C20/output-depends-on-position-in-series/humidity-series", map[string]interface{}{"dryBulb": t, "humidity": e.RH[k], "elevation": elev, "output": o, "ascending_series": a.Out[o][k], "descending_series": b.Out[o][n-1-k]},
					"T=%g RH=%g elev=%g: output %d differs between an ascending and a descending humidity series", t, e.RH[k], elev, o)
				return false
			}
		}
		dew, wet := a.Out[1][k], a.Out[2][k]
		if dew > wet || wet > t || (k > 0 && dew < a.Out[1][k-1]) {
			r.Failf("C20/ordering-violated-in-humidity-series", map[string]interface{}{"dryBulb": t, "humidity": e.RH[k], "elevation": elev, "dewPoint": dew, "wetBulb": wet},
				"T=%g RH=%g elev=%g in a humidity series: dew %g wet %g", t, e.RH[k], elev, dew, wet)
			return false
		}
	}
	return true
}

func (e *enum) Run(i int64, r *vf.Rec) {
	ei, hi := int(i)/len(e.RH), int(i)%len(e.RH)
	elev, rh := elevs[ei], e.RH[hi]
	res := e.column(elev, rh)
	r.Count("lattice_points", int64(len(e.T)))
	r.MarkNontrivial()
	if !e.positionIndependent(elev, rh, res, r) {
		return
	}
	// the humidity-major rows of this elevation are shared out over the columns
	for ti := hi; ti < len(e.T); ti += len(e.RH) {
		if !e.rowsIndependent(elev, ti, r) {
			return
		}
	}
	var next *mrun.Result
	if hi+1 < len(e.RH) {
		n := e.column(elev, e.RH[hi+1])
		next = &n
	}
	for k, t := range e.T {
		vp, dew, wet, dT := res.Out[0][k], res.Out[1][k], res.Out[2][k], res.Out[3][k]
		d := map[string]interface{}{"dryBulb": t, "humidity": rh, "elevation": elev, "vaporPressure": vp, "dewPoint": dew, "wetBulb": wet, "deltaT": dT}
		cls := tband(t) + "/" + hband(rh)
		for _, x := range []float64{vp, dew, wet, dT} {
			if math.IsNaN(x) || math.IsInf(x, 0) {
				r.Failf("C20/non-finite-output/"+cls, d, "T=%g RH=%g elev=%g: non-finite output", t, rh, elev)
				return
			}
		}
		if vp <= 0 {
			r.Failf("C20/vapour-pressure-not-positive/"+cls, d, "T=%g: saturation vapour pressure %g", t, vp)
			return
		}
		if k > 0 && !(vp > res.Out[0][k-1]) {
			d["previous_T"], d["previous_vp"] = e.T[k-1], res.Out[0][k-1]
			r.Failf("C20/vapour-pressure-not-increasing/"+tband(t), d, "saturation vapour pressure %g at T=%g not above %g at T=%g", vp, t, res.Out[0][k-1], e.T[k-1])
			return
		}
		if dew > wet {
			r.Failf("C20/dew-point-above-wet-bulb/"+cls, d, "T=%g RH=%g elev=%g: dew point %g > wet bulb %g", t, rh, elev, dew, wet)
			return
		}
		if wet > t {
			r.Failf("C20/wet-bulb-above-dry-bulb/"+cls, d, "T=%g RH=%g elev=%g: wet bulb %g > dry bulb", t, rh, elev, wet)
			return
		}
		if dT != t-wet {
			r.Failf("C20/depression-not-dry-minus-wet/"+cls, d, "T=%g: deltaT %g != dry - wet %g", t, dT, t-wet)
			return
		}
		if next != nil && next.Out[1][k] < dew {
			d["next_humidity"], d["next_dewPoint"] = e.RH[hi+1], next.Out[1][k]
			r.Failf("C20/dew-point-not-rising-with-humidity/"+cls, d, "T=%g: dew point %g at RH=%g but %g at RH=%g", t, dew, rh, next.Out[1][k], e.RH[hi+1])
			return
		}
	}
}

func Spec() *vf.Check {
	return &vf.Check{
		ID: "C20", Level: "exploration", BlockSize: 4,
		Rule: "lattice: dry bulb -40..55 C step 0.25 (quick) / 0.05 (thorough) plus 0, +-0.001, +-0.01; RH {0.01,0.1,1,5,10,...,95,99,99.9,99.95,99.97,99.99,99.999,100} %; elevation {0,500,1500,3000,6000,10000} m; one case = one (elevation, RH) column of all temperatures through the real ClimateVariables model, compared with the next RH column; " +
			"finite outputs, vapour pressure > 0 and strictly increasing between neighbouring lattice temperatures, dew <= wet <= dry, deltaT == dry - wet exactly, dew point non-decreasing in RH; every point also evaluated in a descending temperature series, alone as a one-step run, and in ascending/descending humidity series at fixed temperature, all bit-identical (the model is stateless per timestep). distinct_nontrivial = columns (all distinct).",
		Assumptions: []string{"nothing is claimed between lattice points"},
		Build: func(tier string) vf.Enumeration {
			step := 0.25
			if tier == "thorough" {
				step = 0.05
			}
			return &enum{T: temps(step), RH: rhs()}
		},
		Finish: func(tier string, m *vf.Merged, cov map[string]interface{}) {
			cov["evaluations"] = m.Counters["lattice_points"]
			cov["distinct_nontrivial"] = m.Counters["lattice_points"]
			cov["columns"] = m.Evals
		},
	}
}
