// Package c10: rainfall-runoff models never create water and keep stores within bounds.
// Bounded-exhaustive: parameter grid x {no prefix, 30 dry steps, 30 wet steps} x every (rain, PET) word of
// length 1..T over a 6-letter alphabet, through the real catalogued models; invariants on every step.
package c10

import (
	"fmt"
	"math"

	"owverif.local/verif/gridx"
	"owverif.local/verif/mrun"
	"owverif.local/verif/vf"
)

var letters = [][]float64{{0, 0}, {0, 5}, {2, 5}, {30, 1}, {150, 0}, {0, 0.1}}

const (
	dryLetter = 1
	wetLetter = 3
)

func tol(scale float64) float64 { return 1e-9*scale + 1e-9 }

type acct struct {
	model string
	// storage returns the water held in the model's state vector (mm), and a list of (name, value, capacity) store checks.
	storage func(p map[string]float64, st []float64) (total float64, stores [][3]interface{})
	// outputs: index of runoff, of reported ET (-1 none), components (a+b = runoff) or -1
	runoff, et, compA, compB int
	nonnegOutputs            bool
	// extra imports allowed per step (e.g. GR4J positive exchange)
	importPerStep func(p map[string]float64) float64
}

func pmap(model string, v []float64) map[string]float64 {
	_, names := gridx.Defaults(model)
	m := map[string]float64{}
	for i, n := range names {
		m[n] = v[i]
	}
	return m
}

func oracle(a *acct) func(c *gridx.Case, r *vf.Rec) {
	return func(c *gridx.Case, r *vf.Rec) {
		res := c.Run()
		p := pmap(a.model, c.Params)
		fail := func(clause string, detail map[string]interface{}, format string, args ...interface{}) {
			detail["params"] = p
			r.Failf(fmt.Sprintf("C10/%s/%s", a.model, clause), detail, a.model+": "+format, args...)
		}
		s0, _ := a.storage(p, res.Init)
		cumRain, cumOut, cumImp := 0.0, 0.0, 0.0
		nontrivial := false
		for t := 0; t < c.T; t++ {
			rain := c.Inputs[0][t]
			cumRain += rain
			for o := range res.Out {
				v := res.Out[o][t]
				if math.IsNaN(v) || math.IsInf(v, 0) {
					fail(fmt.Sprintf("non-finite-output/%d", o), map[string]interface{}{"t": t}, "output %d is %v at t=%d", o, v, t)
					return
				}
				if v < -1e-12 {
					fail(fmt.Sprintf("negative-output/%d", o), map[string]interface{}{"t": t, "value": v}, "output %d is %g at t=%d", o, v, t)
					return
				}
			}
			q := res.Out[a.runoff][t]
			if q > 0 {
				nontrivial = true
			}
			cumOut += q
			if a.et >= 0 {
				cumOut += res.Out[a.et][t]
			}
			if a.importPerStep != nil {
				cumImp += a.importPerStep(p)
			}
			if a.compA >= 0 {
				s := res.Out[a.compA][t] + res.Out[a.compB][t]
				if math.Abs(s-q) > tol(q) {
					fail("components-do-not-add-up", map[string]interface{}{"t": t, "runoff": q, "sum": s}, "t=%d runoff=%g but components sum to %g", t, q, s)
					return
				}
			}
			if cumOut > cumRain+s0+cumImp+tol(cumRain+s0) {
				fail("cumulative-outflow-exceeds-rain-plus-initial-storage", map[string]interface{}{"t": t, "cum_out": cumOut, "cum_rain": cumRain, "s0": s0}, "by t=%d runoff(+ET)=%g > rain %g + initial storage %g", t, cumOut, cumRain, s0)
				return
			}
		}
		sT, stores := a.storage(p, res.States)
		for _, s := range stores {
			name, v, cap := s[0].(string), s[1].(float64), s[2].(float64)
			if math.IsNaN(v) || v < -1e-9 || v > cap+tol(cap) {
				fail("store-out-of-bounds/"+name, map[string]interface{}{"store": name, "value": v, "capacity": cap, "final_states": res.States}, "store %s = %g outside [0, %g] after %d steps", name, v, cap, c.T)
				return
			}
		}
		// strong form: what went out plus what is still stored never exceeds what came in
		if cumOut+sT > cumRain+s0+cumImp+tol(cumRain+s0+sT) {
			fail("water-created", map[string]interface{}{"cum_out": cumOut, "stored_final": sT, "cum_rain": cumRain, "s0": s0, "final_states": res.States}, "after %d steps out %g + stored %g > rain %g + initial %g", c.T, cumOut, sT, cumRain, s0)
			return
		}
		if nontrivial {
			r.MarkNontrivial()
		}
	}
}

// GR4J exact closure (X2 = 0, PET = 0): rain = runoff + change in S + R + UH stores.
func gr4jClosure(c *gridx.Case, r *vf.Rec) {
	res := c.Run()
	p := pmap("GR4J", c.Params)
	store := func(st []float64) float64 {
		n1, n2 := int(st[2]), int(st[3])
		s := st[0] + st[1]
		for i := 0; i < n1+n2 && 4+i < len(st); i++ {
			s += st[4+i]
		}
		return s
	}
	rain, q := 0.0, 0.0
	for t := 0; t < c.T; t++ {
		rain += c.Inputs[0][t]
		q += res.Out[0][t]
	}
	lhs, rhs := rain, q+store(res.States)-store(res.Init)
	if math.Abs(lhs-rhs) > tol(rain) {
		band := "x4<=1"
		switch {
		case p["X4"] > 2:
			band = "x4>2"
		case p["X4"] > 1:
			band = "1<x4<=2"
		case p["X4"] > 0.5 && p["X4"] < 1:
			band = "0.5<x4<1"
		}
		r.Failf("C10/GR4J/closure-x2=0-pet=0/"+band, map[string]interface{}{"params": p, "rain": rain, "runoff": q, "stored_final": store(res.States), "stored_init": store(res.Init), "final_states": res.States},
			"GR4J X2=0 PET=0: rain %g != runoff %g + change in stores %g", rain, q, store(res.States)-store(res.Init))
		return
	}
	if rain > 0 {
		r.MarkNontrivial()
	}
}

func spaces(tier string) []*gridx.Space {
	T := 4
	if tier == "thorough" {
		T = 6
	}
	// the last prefix is a storm period followed by a long recession (base flow decays through its thresholds)
	pre := [][]int{nil, gridx.Rep(dryLetter, 30), gridx.Rep(wetLetter, 30), append(gridx.Rep(wetLetter, 30), gridx.Rep(dryLetter, 45)...)}
	A := func(n string, v ...float64) gridx.Axis { return gridx.Axis{Name: n, Vals: v} }
	var out []*gridx.Space
	add := func(a *acct, params [][]float64, names []string, T int) {
		out = append(out, &gridx.Space{Model: a.model, Params: params, PNames: names, Letters: letters, T: T, MinT: 1, Prefix: pre, Oracle: oracle(a), SecondPassEvery: 16})
	}

	// GR4J
	gp, gn := gridx.Grid("GR4J", nil, []gridx.Axis{A("X1", 50, 350, 1200), A("X2", -10, -5, 0, 3), A("X3", 2, 5, 90, 400), A("X4", 0.5, 0.7, 1, 1.3, 2, 2.5, 3, 4)}) // X3 < |X2|: the exchange can exceed the routing store
	gr4j := &acct{model: "GR4J", runoff: 0, et: -1, compA: -1, compB: -1,
		importPerStep: func(p map[string]float64) float64 { return 2 * math.Max(0, p["X2"]) },
		storage: func(p map[string]float64, st []float64) (float64, [][3]interface{}) {
			n1, n2 := int(st[2]), int(st[3])
			s := st[0] + st[1]
			for i := 0; i < n1+n2 && 4+i < len(st); i++ {
				s += st[4+i]
			}
			return s, [][3]interface{}{{"production", st[0], p["X1"]}, {"routing", st[1], p["X3"]}}
		}}
	gT := T
	if tier == "quick" {
		gT = 3
	} else {
		gT = 5
	}
	add(gr4j, gp, gn, gT)
	// closure: X2 = 0, PET = 0 letters only
	cp, cn := gridx.Grid("GR4J", map[string]float64{"X2": 0}, []gridx.Axis{A("X1", 50, 350, 1200), A("X3", 5, 90, 400), A("X4", 0.5, 0.7, 1, 1.3, 2, 2.5, 3, 4)})
	out = append(out, &gridx.Space{Name: "GR4J/closure", Model: "GR4J", Params: cp, PNames: cn, Letters: [][]float64{{0, 0}, {2, 0}, {30, 0}, {150, 0}}, T: T + 1, MinT: 1,
		Prefix: [][]int{nil, gridx.Rep(2, 30)}, Oracle: gr4jClosure})

	// Sacramento
	sacBase := map[string]float64{}
	sp, sn := gridx.OneAtATime("Sacramento", sacBase, []gridx.Axis{
		A("uztwm", 5, 125), A("uzfwm", 5, 75), A("lztwm", 5, 300), A("lzfsm", 5, 300), A("lzfpm", 5, 600),
		A("lzpk", 0.001, 0.5), A("lzsk", 0.01, 0.9), A("uzk", 0.05, 1), A("pfree", 0, 0.5), A("rexp", 0, 3), A("zperc", 1, 80),
		A("side", 0.3), A("ssout", 0.5), A("pctim", 0, 0.3), A("adimp", 0.2), A("sarva", 0.1), A("rserv", 0, 1)})
	// a few combinations
	for _, set := range []map[string]float64{
		{"adimp": 0.2, "pctim": 0.1, "sarva": 0.1, "side": 0.3, "ssout": 0.2},
		{"uztwm": 5, "uzfwm": 5, "lztwm": 5, "lzfsm": 5, "lzfpm": 5},
		{"uztwm": 125, "uzfwm": 75, "lztwm": 300, "lzfsm": 300, "lzfpm": 600, "zperc": 80, "rexp": 3},
		// unit-hydrograph ordinates that do not sum to one (the kernel normalises them): just above, well above, below;
		// fully impervious so that all rain is routed through them
		{"uh1": 0.8, "uh2": 0.1, "uh3": 0.05, "uh4": 0.03, "uh5": 0.029, "pctim": 1},
		{"uh1": 0.8, "uh2": 0.1, "uh3": 0.05, "uh4": 0.03, "uh5": 0.029, "pctim": 0.4, "adimp": 0.2},
		{"uh1": 1, "uh2": 0.5, "uh3": 0.25, "uh4": 0, "uh5": 0, "pctim": 1},
		{"uh1": 0.5, "uh2": 0.3, "uh3": 0.195, "uh4": 0, "uh5": 0, "pctim": 1},
	} {
		sp = append(sp, gridx.PV("Sacramento", set))
		sn = append(sn, fmt.Sprint(set))
	}
	// factorial over the lower-zone percolation parameters (thorough: full; quick: corners)
	lvl := func(q, th []float64) []float64 {
		if tier == "thorough" {
			return th
		}
		return q
	}
	fp, fn := gridx.Grid("Sacramento", nil, []gridx.Axis{
		{Name: "pfree", Vals: lvl([]float64{0, 1}, []float64{0, 0.5, 0.8, 1})}, {Name: "rserv", Vals: lvl([]float64{0.3, 1}, []float64{0, 0.3, 1})},
		{Name: "lzfsm", Vals: lvl([]float64{5, 300}, []float64{5, 25, 300})}, {Name: "lzfpm", Vals: lvl([]float64{5, 600}, []float64{5, 60, 600})},
		{Name: "lztwm", Vals: lvl([]float64{5, 300}, []float64{5, 130, 300})}, {Name: "zperc", Vals: lvl([]float64{1, 80}, []float64{1, 40, 80})}})
	sp, sn = append(sp, fp...), append(sn, fn...)
	sac := &acct{model: "Sacramento", runoff: 1, et: 0, compA: 3, compB: 4,
		storage: func(p map[string]float64, st []float64) (float64, [][3]interface{}) {
			perv := 1 - p["pctim"] - p["adimp"]
			tot := (st[0]+st[1]+st[2]+(st[3]+st[4])*(1+p["side"]))*perv + st[5]*p["adimp"]
			return tot, [][3]interface{}{{"UprTensionWater", st[0], p["uztwm"]}, {"UprFreeWater", st[1], p["uzfwm"]}, {"LwrTensionWater", st[2], p["lztwm"]},
				{"LwrPrimaryFreeWater", st[3], p["lzfpm"]}, {"LwrSupplFreeWater", st[4], p["lzfsm"]}, {"AdditionalImperviousStore", st[5], p["uztwm"] + p["lztwm"]}}
		}}
	add(sac, sp, sn, T)

	// Simhyd
	simBase := map[string]float64{"baseflowCoefficient": 0.3, "imperviousThreshold": 1, "infiltrationCoefficient": 200, "infiltrationShape": 3, "interflowCoefficient": 0.1,
		"perviousFraction": 0.9, "rainfallInterceptionStoreCapacity": 1.5, "rechargeCoefficient": 0.2, "soilMoistureStoreCapacity": 120}
	hp, hn := gridx.Grid("Simhyd", simBase, []gridx.Axis{A("baseflowCoefficient", 0, 0.3, 1), A("infiltrationCoefficient", 5, 400), A("infiltrationShape", 0, 10),
		A("interflowCoefficient", 0, 1), A("perviousFraction", 0, 0.9, 1), A("rechargeCoefficient", 0, 1), A("soilMoistureStoreCapacity", 5, 500)})
	hp2, hn2 := gridx.OneAtATime("Simhyd", simBase, []gridx.Axis{A("imperviousThreshold", 0, 5), A("rainfallInterceptionStoreCapacity", 0, 5)})
	hp, hn = append(hp, hp2...), append(hn, hn2...)
	sim := &acct{model: "Simhyd", runoff: 0, et: -1, compA: 1, compB: 2,
		storage: func(p map[string]float64, st []float64) (float64, [][3]interface{}) {
			return (st[0] + st[1]) * p["perviousFraction"], [][3]interface{}{{"SoilMoistureStore", st[0], p["soilMoistureStoreCapacity"]}, {"Groundwater", st[1], math.Inf(1)}}
		}}
	hT := T
	if tier == "quick" {
		hT = 3
	}
	add(sim, hp, hn, hT)

	// Surm
	surBase := map[string]float64{"bfac": 0.1, "coeff": 150, "dseep": 0.01, "fcFrac": 0.5, "fimp": 0.1, "rfac": 0.2, "smax": 150, "sq": 2, "thres": 1}
	up, un := gridx.Grid("Surm", surBase, []gridx.Axis{A("bfac", 0, 0.1, 1), A("coeff", 5, 400), A("dseep", 0, 0.5), A("fcFrac", 0, 0.5, 1), A("fimp", 0, 0.1, 1), A("rfac", 0, 1), A("smax", 20, 500), A("sq", 0, 10)})
	up2, un2 := gridx.OneAtATime("Surm", surBase, []gridx.Axis{A("thres", 0, 5)})
	up, un = append(up, up2...), append(un, un2...)
	sur := &acct{model: "Surm", runoff: 0, et: -1, compA: 1, compB: 2,
		storage: func(p map[string]float64, st []float64) (float64, [][3]interface{}) {
			return (st[0] + st[1]) * (1 - p["fimp"]), [][3]interface{}{{"SoilMoistureStore", st[0], p["smax"]}, {"Groundwater", st[1], math.Inf(1)}}
		}}
	add(sur, up, un, hT)

	// RunoffCoefficient
	rp, rn := gridx.Grid("RunoffCoefficient", nil, []gridx.Axis{A("coeff", 0, 0.05, 0.35, 1)})
	rc := &acct{model: "RunoffCoefficient", runoff: 0, et: -1, compA: -1, compB: -1,
		storage: func(p map[string]float64, st []float64) (float64, [][3]interface{}) { return 0, nil }}
	out = append(out, &gridx.Space{Model: "RunoffCoefficient", Params: rp, PNames: rn, Letters: [][]float64{{0}, {2}, {30}, {150}}, T: T, MinT: 1, Oracle: oracle(rc)})
	// single calls over long series (1024 = a multiple of every power-of-two block size up to 1024; 1027 = no such multiple)
	for _, s := range append([]*gridx.Space{}, out...) {
		out = append(out, s.LongClones([]int{1024, 1027}, 4)...)
	}
	return out
}

var _ = mrun.SameBits

func Spec() *vf.Check {
	return &vf.Check{
		ID: "C10", Level: "exploration", BlockSize: 4096,
		Rule: "GR4J/Sacramento/Simhyd/Surm/RunoffCoefficient: parameter grids inside the documented/physical ranges x prefixes {none, 30 dry steps, 30 storm steps, 30 storm + 45 dry steps} x every word of length 1..T over the (rain,PET) alphabet {(0,0),(0,5),(2,5),(30,1),(150,0),(0,0.1)}; " +
			"every step: outputs finite and >=0, components add up, cumulative runoff(+ET) <= cumulative rain + initial storage; every final state (= every intermediate state, since all word lengths are enumerated): stores in [0,capacity], outflow + stored <= inflow + initially stored; " +
			"GR4J X2=0, PET=0: exact closure. distinct_nontrivial = cases producing runoff.",
		Assumptions: []string{
			"parameter ranges: OW-SPEC ranges for GR4J and Sacramento (capacities >= 5 mm); Simhyd/Surm: fractions and coefficients in [0,1], capacities 5-500 mm (Surm smax >= 20 mm), infiltration coefficient 5-400 mm, shape factors 0-10",
			"GR4J with X2 > 0 imports water by design (groundwater exchange): the budget allows 2*X2 per step there",
			"Sacramento: the unit-hydrograph buffer is not observable in the state vector; it is left out of the stored-water term (conservative: can only hide a loss, not a gain)",
			"values between lattice points are not covered"},
		Build: func(tier string) vf.Enumeration { return gridx.NewEnum("C10", spaces(tier)) },
	}
}
