// Package c05: concurrent cell execution inside Run is race-free and schedule-independent.
//
// The generated wrappers are rewritten (go statements, channel operations -> vrt) so that Run executes under
// the controlled scheduler; the binary is built with -race, and because the scheduler's hand-offs are
// invisible to the race detector, the detector checks every explored schedule for conflicting accesses
// that the program's own synchronisation (spawn, doneChan) does not order. Every schedule's outputs and
// final states are compared bit-for-bit with the sequential cell-by-cell result.
package c05

import (
	"encoding/json"
	"fmt"
	"math"
	"os"
	"os/exec"
	"path/filepath"
	"runtime"
	"strconv"

	"github.com/flowmatters/openwater-core/data"
	"github.com/flowmatters/openwater-core/sim"
	"owverif.local/verif/mrun"
	"owverif.local/verif/sched"
	"owverif.local/verif/tables"
	"owverif.local/verif/vf"
	"owverif.local/verif/vrt"
)

type kase struct {
	tbl   tables.Table
	group []int
	N     int
	bound int
	P, B  int // parameter sets and input blocks (cyclic when fewer than cells)
	procs int // GOMAXPROCS seen by Run (0 = the worker's own, 1): results must not depend on it
}

const T = 3

// groupsFor: parameter vectors that can share one Run call (same state layout); Lag once with a lag shorter and once
// with a lag longer than the series (different branches of the kernel)
func groupsFor(t tables.Table) [][]int {
	switch t.Model {
	case "GR4J":
		return [][]int{{1, 5}}
	case "Lag":
		return [][]int{{2}, {4}}
	case "RatingCurvePartition":
		if len(t.Params) == 5 { // the regular tables together, and the 20-point table (added in build) shared by all cells
			return [][]int{{0, 1, 2, 3}, {4}}
		}
	case "Storage":
		if len(t.Params) == 3 { // the two regular tables together, and the descending table (added in build) shared by all cells
			return [][]int{{0, 1}, {2}}
		}
	}
	all := make([]int, len(t.Params))
	for i := range all {
		all[i] = i
	}
	return [][]int{all}
}

func (k kase) cellParams(c int) []float64 { return k.tbl.Params[k.group[c%len(k.group)]] }

func (k kase) inputs(cell int) [][]float64 {
	nin := len(k.tbl.Letters[0])
	in := make([][]float64, nin)
	for i := range in {
		in[i] = make([]float64, T)
		for t := 0; t < T; t++ {
			in[i][t] = k.tbl.Letters[(cell*5+t*3+1)%len(k.tbl.Letters)][i]
		}
	}
	return in
}

type world struct {
	m       sim.TimeSteppingModel
	in      data.ND3Float64
	st      data.ND2Float64
	out     data.ND3Float64
	nout    int
	nstates int
}

func (k kase) build() *world {
	model := k.tbl.Model
	desc := sim.Catalog[model]().Description()
	maxN := 0
	for c := 0; c < k.P; c++ {
		if n := tables.TableLen(model, k.cellParams(c)); n > maxN {
			maxN = n
		}
	}
	cols := make([][]float64, k.P)
	for c := range cols {
		cols[c] = tables.Repack(model, k.cellParams(c), maxN)
	}
	params := data.NewArray2DFloat64(len(cols[0]), k.P)
	for c := range cols {
		for i, v := range cols[c] {
			params.Set2(i, c, v)
		}
	}
	w := &world{m: sim.Catalog[model](), nout: len(desc.Outputs)}
	if dims := w.m.FindDimensions(params); len(dims) > 0 {
		w.m.InitialiseDimensions(dims)
	}
	w.m.ApplyParameters(params)
	w.in = data.NewArray3DFloat64(k.B, len(desc.Inputs), T)
	for c := 0; c < k.B; c++ {
		for i, s := range k.inputs(c) {
			for t, v := range s {
				w.in.Set3(c, i, t, v)
			}
		}
	}
	w.st = w.m.InitialiseStates(k.N)
	w.nstates = w.st.Len(1)
	w.out = data.NewArray3DFloat64(k.N, w.nout, T)
	return w
}

func run(k kase, r *vf.Rec) {
	model := k.tbl.Model
	// sequential reference: every cell alone
	ref := make([]mrun.Result, k.N)
	if freshRefs == nil {
		freshRefs = map[string][]uint64{}
		if b, err := os.ReadFile(refsPath()); err == nil {
			json.Unmarshal(b, &freshRefs)
		}
	}
	for c := 0; c < k.N; c++ {
		ref[c] = mrun.RunCell(model, k.cellParams(c%k.P), k.inputs(c%k.B), T, nil)
		key := refKey{model, k.group[(c%k.P)%len(k.group)], c % k.B}.String()
		if fresh, ok := freshRefs[key]; ok {
			got := bitsOf(ref[c])
			same := len(got) == len(fresh)
			for i := 0; same && i < len(got); i++ {
				same = got[i] == fresh[i]
			}
			if !same {
				r.Failf("C05/Run/"+model+"/sequential-single-cell-result-depends-on-process-history", map[string]interface{}{"cell": c, "reference_key": key, "outputs_in_this_process": ref[c].Out},
					"%s: the single-cell run of cell %d (parameter vector %d) in this process differs from the same run done first in a fresh process", model, c, k.group[(c%k.P)%len(k.group)])
				return
			}
			r.Count("references_confirmed_against_fresh_process", 1)
		}
	}
	var w *world
	h := &sched.Harness{
		Name:  fmt.Sprintf("%s/N=%d,P=%d,B=%d,params=%v,gomaxprocs=%d", model, k.N, k.P, k.B, k.group, k.procs),
		Reset: func() { w = k.build() },
		Body:  func() { w.m.Run(w.in, w.st, w.out) },
		Observe: func(res vrt.Result) sched.Outcome {
			key := ""
			for c := 0; c < k.N; c++ {
				for o := 0; o < w.nout; o++ {
					for t := 0; t < T; t++ {
						v := w.out.Get3(c, o, t)
						key += fmt.Sprintf("%x,", math.Float64bits(v))
						if math.Float64bits(v) != math.Float64bits(ref[c].Out[o][t]) {
							return sched.Outcome{Key: key, Problem: "result-differs-from-sequential", Detail: fmt.Sprintf("cell %d output %d t=%d is %v, sequential run gives %v", c, o, t, v, ref[c].Out[o][t])}
						}
					}
				}
				for j := 0; j < len(ref[c].States) && j < w.nstates; j++ {
					v := w.st.Get2(c, j)
					key += fmt.Sprintf("%x;", math.Float64bits(v))
					if math.Float64bits(v) != math.Float64bits(ref[c].States[j]) {
						return sched.Outcome{Key: key, Problem: "final-state-differs-from-sequential", Detail: fmt.Sprintf("cell %d state %d is %v, sequential run gives %v", c, j, v, ref[c].States[j])}
					}
				}
			}
			return sched.Outcome{Key: key}
		},
	}
	ex := &sched.Explorer{Bound: k.bound, MaxExec: 200000}
	if k.procs > 0 {
		// only the value reported by runtime.GOMAXPROCS changes: the controlled scheduler still runs one logical thread at a time
		old := runtime.GOMAXPROCS(k.procs)
		defer runtime.GOMAXPROCS(old)
	}
	st := ex.Explore(h)
	r.Count("schedules", int64(st.Executions))
	r.Count("scheduling_points", int64(st.Points))
	r.Count("horizon_hits", int64(st.HorizonHits))
	if !st.Complete {
		r.Count("explorations_cut_by_cap", 1)
	}
	r.Note(h.Name, fmt.Sprintf("schedules=%d threads=%d bound=%d complete=%v outcomes=%d races=%d", st.Executions, st.MaxThreads, st.Bound, st.Complete, len(st.Outcomes), st.Races))
	if len(st.Outcomes) > 1 {
		r.Failf("C05/Run/"+model+"/results-depend-on-schedule", map[string]interface{}{"distinct_outcomes": len(st.Outcomes)}, "%s N=%d: %d distinct results over %d schedules", model, k.N, len(st.Outcomes), st.Executions)
	}
	for kind, p := range st.Problems {
		r.Failf("C05/Run/"+model+"/"+kind, map[string]interface{}{"schedule": p.Choices, "events": p.Events, "detail": p.Detail, "count": p.Count, "cells": k.N},
			"%s N=%d: %s in %d of %d schedules (first schedule %v): %v", model, k.N, kind, p.Count, st.Executions, p.Choices, p.Detail)
	}
	if len(st.Problems) == 0 {
		r.MarkNontrivial()
	}
}

// allTables: the catalogue tables, Storage with one more vector.
func allTables() []tables.Table {
	var out []tables.Table
	for _, t := range tables.All() {
		if t.Model == "Storage" {
			// a table tabulated from full to empty (descending volumes): the kernel treats it deterministically, and a
			// shared parameter set must stay read-only whatever the table looks like
			t.Params = append(append([][]float64{}, t.Params...), tables.StorageParams(86400, []float64{10, 5, 0}, []float64{3e6, 1e6, 0}, []float64{0, 2e5, 4e5}, []float64{0, 0, 0}, []float64{0, 20, 80}))
		}
		if t.Model == "RatingCurvePartition" {
			// a long rating table (20 points) shared by all cells: a lookup that treats long tables differently (a search
			// hint, a cache) must not share anything between the cells
			rc := []float64{20}
			for i := 0; i < 20; i++ {
				rc = append(rc, 6*float64(i)) // 0 .. 114: every letter (0, 0.3, 7, 100) is inside the table
			}
			for i := 0; i < 20; i++ {
				rc = append(rc, 1-float64(i)/19)
			}
			t.Params = append(append([][]float64{}, t.Params...), rc)
			t.PNames = append(append([]string{}, t.PNames...), "n=20")
		}
		out = append(out, t)
	}
	return out
}

// ---- sequential references computed in FRESH processes: "the sequential cell-by-cell result" must not depend on
// what else ran in the process before (a table cached by the first cell would make the in-process reference and
// the vectorised run agree with each other and both be wrong)

type refKey struct {
	Model      string
	Param, Cel int
}

func (k refKey) String() string { return fmt.Sprintf("%s/%d/%d", k.Model, k.Param, k.Cel) }

func refsPath() string { return filepath.Join(vf.Root, ".build", "c05-refs.json") }

var freshRefs map[string][]uint64

func bitsOf(r mrun.Result) []uint64 {
	var out []uint64
	for _, o := range r.Out {
		for _, v := range o {
			out = append(out, math.Float64bits(v))
		}
	}
	out = append(out, 0xfeedface)
	for _, v := range r.States {
		out = append(out, math.Float64bits(v))
	}
	return out
}

func tableOf(model string) tables.Table {
	for _, t := range allTables() {
		if t.Model == model {
			return t
		}
	}
	panic("no table for " + model)
}

// sub-command: --ref model paramIndex cell  -> the bits of that single-cell run, first thing in this process
func sub(args []string) bool {
	if len(args) >= 4 && args[0] == "--ref" {
		pi, _ := strconv.Atoi(args[2])
		ci, _ := strconv.Atoi(args[3])
		t := tableOf(args[1])
		k := kase{tbl: t}
		res := mrun.RunCell(t.Model, t.Params[pi], k.inputs(ci), T, nil)
		b, _ := json.Marshal(bitsOf(res))
		fmt.Fprintln(vf.Stdout, string(b))
		return true
	}
	return false
}

func pre(tier string, r *vf.Rec) {
	self, _ := os.Executable()
	need := map[refKey]bool{}
	for _, k := range build(tier).cases {
		for c := 0; c < k.N; c++ {
			need[refKey{k.tbl.Model, k.group[(c%k.P)%len(k.group)], c % k.B}] = true
		}
	}
	type res struct {
		key  string
		bits []uint64
	}
	out := make(chan res, len(need))
	sem := make(chan bool, 14)
	for key := range need {
		key := key
		sem <- true
		go func() {
			defer func() { <-sem }()
			b, err := exec.Command(self, "C05", "--ref", key.Model, strconv.Itoa(key.Param), strconv.Itoa(key.Cel)).Output()
			var v []uint64
			if err == nil && json.Unmarshal(b, &v) == nil {
				out <- res{key.String(), v}
			} else {
				out <- res{key.String(), nil}
			}
		}()
	}
	all := map[string][]uint64{}
	for range need {
		x := <-out
		if x.bits != nil {
			all[x.key] = x.bits
		}
	}
	r.Count("fresh_process_single_cell_references", int64(len(all)))
	r.Count("fresh_process_references_unavailable", int64(len(need)-len(all)))
	os.MkdirAll(filepath.Join(vf.Root, ".build"), 0755)
	b, _ := json.Marshal(all)
	os.WriteFile(refsPath(), b, 0644)
}

type enum struct{ cases []kase }

func (e *enum) N() int64               { return int64(len(e.cases)) }
func (e *enum) Run(i int64, r *vf.Rec) { run(e.cases[i], r) }
func (e *enum) Describe(i int64) interface{} {
	k := e.cases[i]
	return map[string]interface{}{"model": k.tbl.Model, "parameter_vectors": k.group, "cells": k.N, "parameter_sets": k.P, "input_blocks": k.B, "gomaxprocs": k.procs, "preemption_bound": k.bound, "timesteps": T}
}
func (e *enum) CrashSig(i int64, tail string) (string, string) {
	return "C05/Run/" + e.cases[i].tbl.Model + "/crash", "the schedule exploration crashed the process"
}

func build(tier string) *enum {
	e := &enum{}
	for _, t := range allTables() {
		for _, g := range groupsFor(t) {
			e.cases = append(e.cases, kase{t, g, 2, -1, 2, 2, 0}, kase{t, g, 2, -1, 1, 1, 0})
			if tier == "thorough" && t.Cost >= 3 {
				// a kernel that takes milliseconds per cell (Storage's sub-stepping, -race build): smaller bounds
				e.cases = append(e.cases, kase{t, g, 3, 1, 3, 3, 0}, kase{t, g, 3, 1, 2, 1, 0}, kase{t, g, 4, 0, 3, 2, 0})
				e.cases = append(e.cases, kase{t, g, 3, 0, 3, 1, 2})
			} else if tier == "thorough" {
				e.cases = append(e.cases, kase{t, g, 3, 3, 3, 3, 0}, kase{t, g, 3, 3, 2, 1, 0}, kase{t, g, 4, 2, 3, 2, 0})
				e.cases = append(e.cases, kase{t, g, 4, 0, 2, 2, 3}, kase{t, g, 3, 1, 3, 1, 2})
			} else {
				e.cases = append(e.cases, kase{t, g, 3, 1, 2, 1, 0})
				// more cells than processors: (cells, GOMAXPROCS) = (3,2), no preemption beyond the forced switches
				e.cases = append(e.cases, kase{t, g, 3, 0, 3, 1, 2})
			}
		}
	}
	return e
}

func Spec() *vf.Check {
	return &vf.Check{
		ID: "C05", Level: "model_checking", BlockSize: 1, HangSeconds: 3600, Sub: sub, Pre: pre,
		Rule: "for every catalogued model and N = 2 cells (all interleavings; one parameter set / input block per cell, and a single shared one), N = 3 (quick: <= 1 preemption, 2 parameter sets, 1 shared input block; thorough: <= 3 preemptions, both layouts) and N = 4 (thorough, <= 2 preemptions, 3 sets / 2 blocks; for Storage, whose kernel takes milliseconds per cell under -race: <= 1 preemption with 3 cells, none with 4); with GOMAXPROCS set to fewer processors than cells: (cells, processors) = (3,2) (quick: every order of the forced switches, no preemptions; thorough: <= 1 preemption, and (4,3) without preemptions): the rewritten generated Run executes under the controlled scheduler with scheduling points at spawn, channel send/receive and thread exit; the binary is built with -race and the scheduler's hand-offs are hidden from the race detector, so every explored schedule is checked for unsynchronised conflicting accesses; outputs and final states of every schedule are compared bit-for-bit with the sequential cell-by-cell result, which is itself confirmed against the same single-cell run done first in a fresh process; deadlocks are reported. " +
			"The ow-sim generation part reuses the C07 harness (see C07).",
		Assumptions: []string{"the cooperative scheduler runs one logical thread at a time (sequential consistency between scheduling points); weak-memory reorderings are not modelled",
			"the race detector keeps a bounded access history per memory word; an unsynchronised pair separated by many later accesses to the same word can be missed within one schedule"},
		Build: func(tier string) vf.Enumeration { return build(tier) },
		Finish: func(tier string, m *vf.Merged, cov map[string]interface{}) {
			cov["states"] = m.Counters["scheduling_points"]
			cov["transitions"] = m.Counters["scheduling_points"]
			cov["traces_validated_against_impl"] = m.Counters["schedules"]
			cov["race_detector_enabled"] = vrt.RaceEnabled
			cov["explanation"] = "states/transitions = scheduling points visited over all executions (stateless search: states are not deduplicated); traces = complete schedules executed on the real code"
		},
	}
}
