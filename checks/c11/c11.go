// Package c11: flow routing conserves volume and honours its storage-discharge relation.
package c11

import (
	"fmt"
	"github.com/flowmatters/openwater-core/data"
	"math"
	"owverif.local/verif/mrun"

	"owverif.local/verif/gridx"
	"owverif.local/verif/vf"
)

const (
	massBalanceLimit = 1e-3 // the solver's own constants (models/routing/storage_routing.go)
	convergenceLimit = 1e-8
)

func pm(model string, v []float64) map[string]float64 {
	_, names := gridx.Defaults(model)
	m := map[string]float64{}
	for i, n := range names {
		m[n] = v[i]
	}
	return m
}

// ---- StorageRouting
func srOracle(c *gridx.Case, r *vf.Rec) {
	p := pm("StorageRouting", c.Params)
	res := c.Run()
	dt, k, m, dead, area, bias := p["DeltaT"], p["RoutingConstant"], p["RoutingPower"], p["deadStorage"], p["area"], p["InflowBias"]
	prevS := res.Init[0]
	cls := fmt.Sprintf("dead%s/bias%s", map[bool]string{true: ">0", false: "=0"}[dead > 0], map[bool]string{true: ">0", false: "=0"}[bias > 0])
	nontrivial := false
	for t := 0; t < c.T; t++ {
		I, L, rain, evap := c.Inputs[0][t], c.Inputs[1][t], c.Inputs[2][t], c.Inputs[3][t]
		Q, S := res.Out[0][t], res.Out[1][t]
		d := map[string]interface{}{"t": t, "params": p, "inflow": I, "lateral": L, "rain": rain, "evap": evap, "outflow": Q, "storage": S, "prev_storage": prevS, "outflows": res.Out[0], "storages": res.Out[1]}
		if math.IsNaN(Q) || math.IsNaN(S) || math.IsInf(Q, 0) || math.IsInf(S, 0) {
			r.Failf("C11/StorageRouting/non-finite/"+cls, d, "StorageRouting t=%d: outflow=%v storage=%v", t, Q, S)
			return
		}
		if Q < 0 || S < 0 {
			r.Failf("C11/StorageRouting/negative-outflow-or-storage/"+cls, d, "StorageRouting t=%d: outflow=%g storage=%g", t, Q, S)
			return
		}
		// implied net evaporation flux (m3/s) from the balance
		E := I + L - Q - (S-prevS)/dt
		// net atmospheric flux: net rain is added in full; net evaporation is limited by the water available.
		// The statement does not fix the depth unit, so either reading (mm as written in the spec, or the
		// kernel's own unconverted figure) is accepted - but it must be one of them.
		scale := math.Max(math.Max(I+L, Q), math.Max(S, prevS)/dt)
		tol := 2*massBalanceLimit/dt + 1e-9*scale
		okE := false
		var lo, hi float64
		for _, unit := range []float64{1, 1e-3} {
			pot := unit * area * (evap - rain) / dt
			lo, hi = pot, pot
			if pot > 0 {
				lo = math.Min(pot, prevS/dt+I) // limited by the water in the reach
			}
			if E >= lo-tol && E <= hi+tol {
				okE = true
			}
		}
		if !okE {
			kind := "balance-residual-with-no-atmospheric-flux"
			if area*(evap-rain) != 0 {
				kind = "balance-residual-is-not-the-net-evaporation"
				if evap < rain {
					kind = "balance-residual-is-not-the-net-rainfall"
				}
			}
			r.Failf("C11/StorageRouting/"+kind+"/"+cls, d, "StorageRouting t=%d: storage change %g != (inflow %g + lateral %g - outflow %g - E)*dt with E the net atmospheric flux (implied E=%g, expected about %g)", t, S-prevS, I, L, Q, E, hi)
			return
		}
		if bias == 0 && Q > 0 {
			// S = k*q^m + dead where the index flow q solves q*dt + k*q^m = W (the water above the dead storage, W = S - dead + Q*dt).
			// The solver stops when the residual is below massBalanceLimit or q is bracketed within convergenceLimit, so the
			// index flow implied by the reported storage must be within those tolerances of the exact root.
			W := (S - dead) + Q*dt
			g := func(q float64) float64 { return q*dt + k*math.Pow(q, m) - W }
			lo, hi := 0.0, W/dt
			for it := 0; it < 200; it++ {
				mid := 0.5 * (lo + hi)
				if g(mid) > 0 {
					hi = mid
				} else {
					lo = mid
				}
			}
			qStar := 0.5 * (lo + hi)
			qS := math.Pow(math.Max(S-dead, 0)/k, 1/m)
			resid := math.Abs(g(qS))
			if resid > massBalanceLimit*(1+1e-6)+1e-9*W && math.Abs(qS-qStar) > 2*convergenceLimit+1e-9*qStar {
				d["index_flow_implied_by_storage"], d["exact_index_flow"], d["residual_m3"] = qS, qStar, resid
				r.Failf("C11/StorageRouting/storage-discharge-law-violated/"+cls, d, "StorageRouting t=%d: storage %g and outflow %g: S = k*q^m + dead holds for q=%g but the balance needs q=%g (residual %g m3 > %g, index flow off by more than %g)", t, S, Q, qS, qStar, resid, massBalanceLimit, 2*convergenceLimit)
				return
			}
		}
		if Q > 0 {
			nontrivial = true
		}
		prevS = S
	}
	if nontrivial {
		r.MarkNontrivial()
	}
}

// ---- Muskingum
func muskOracle(tail int) func(c *gridx.Case, r *vf.Rec) {
	return func(c *gridx.Case, r *vf.Rec) {
		p := pm("Muskingum", c.Params)
		// event followed by a zero tail
		in := make([][]float64, 2)
		for k := range in {
			in[k] = append(append([]float64{}, c.Inputs[k]...), make([]float64, tail)...)
		}
		cc := *c
		cc.Inputs, cc.T = in, c.T+tail
		res := cc.Run()
		vin, vout := 0.0, 0.0
		maxin := 0.0
		for t := 0; t < cc.T; t++ {
			vin += in[0][t] + in[1][t]
			vout += res.Out[0][t]
			maxin = math.Max(maxin, in[0][t]+in[1][t])
		}
		d := map[string]interface{}{"params": p, "inflow": c.Inputs[0], "lateral": c.Inputs[1], "tail_steps": tail, "volume_in": vin, "volume_out": vout, "outflow": res.Out[0]}
		last := res.Out[0][cc.T-1]
		if math.Abs(last) > 1e-9*maxin+1e-12 {
			r.Count("muskingum_tail_not_drained", 1)
			return // event not finite within the horizon for this (K,X): no verdict
		}
		lat := "no-lateral"
		for _, v := range c.Inputs[1] {
			if v != 0 {
				lat = "with-lateral"
			}
		}
		if math.Abs(vin-vout) > 1e-9*vin+1e-12 {
			r.Failf("C11/Muskingum/event-volume-not-conserved/"+lat, d, "Muskingum K=%g X=%g: inflow+lateral volume %g, outflow volume %g", p["K"], p["X"], vin, vout)
			return
		}
		for t := 0; t < cc.T; t++ {
			if res.Out[0][t] < -1e-9*maxin {
				r.Failf("C11/Muskingum/negative-outflow", d, "Muskingum K=%g X=%g: outflow %g at t=%d", p["K"], p["X"], res.Out[0][t], t)
				return
			}
		}
		// the same event run as consecutive calls that carry the returned states forward: every way to cut the event
		// part, the zero tail as the last call; the volume must be conserved in exactly the same way
		var masks []int // one cut at every position, a cut after every step, and (short events) every combination
		if c.T <= 4 {
			for mask := 1; mask < 1<<c.T; mask++ {
				masks = append(masks, mask)
			}
		} else {
			for t := 0; t < c.T; t++ {
				masks = append(masks, 1<<t)
			}
			masks = append(masks, 1<<c.T-1, 0x55&(1<<c.T-1))
		}
		for _, mask := range masks {
			var states []float64
			from, wout := 0, 0.0
			for t := 0; t < c.T; t++ {
				if mask&(1<<t) != 0 {
					seg := cc.RunSeg(from, t+1, states)
					for _, v := range seg.Out[0] {
						wout += v
					}
					states, from = seg.States, t+1
				}
			}
			seg := cc.RunSeg(from, cc.T, states)
			for _, v := range seg.Out[0] {
				wout += v
			}
			r.Count("muskingum_windowed_events", 1)
			if math.Abs(vin-wout) > 1e-9*vin+1e-12 {
				cuts := []int{}
				for t := 0; t < c.T; t++ {
					if mask&(1<<t) != 0 {
						cuts = append(cuts, t+1)
					}
				}
				d["cuts_after_steps"], d["volume_out_windowed"] = cuts, wout
				r.Failf("C11/Muskingum/event-volume-not-conserved-when-run-in-windows/"+lat, d, "Muskingum K=%g X=%g: run in windows cut after %v the outflow volume is %g, inflow+lateral volume %g", p["K"], p["X"], cuts, wout, vin)
				return
			}
		}
		if vin > 0 {
			r.MarkNontrivial()
		}
	}
}

func muskSteady(c *gridx.Case, r *vf.Rec) {
	// the word is one letter, repeated 400 times: steady flow must pass unchanged
	p := pm("Muskingum", c.Params)
	const n = 400
	I, L := c.Inputs[0][0], c.Inputs[1][0]
	in := [][]float64{make([]float64, n), make([]float64, n)}
	for t := 0; t < n; t++ {
		in[0][t], in[1][t] = I, L
	}
	cc := *c
	cc.Inputs, cc.T = in, n
	res := cc.Run()
	got := res.Out[0][n-1]
	lat := "no-lateral"
	if L != 0 {
		lat = "with-lateral"
	}
	if math.Abs(got-(I+L)) > 1e-9*(I+L)+1e-12 {
		r.Failf("C11/Muskingum/steady-flow-not-passed/"+lat, map[string]interface{}{"params": p, "inflow": I, "lateral": L, "outflow_after_400_steps": got}, "Muskingum K=%g X=%g: steady inflow %g + lateral %g gives outflow %g", p["K"], p["X"], I, L, got)
		return
	}
	// the same steady flow delivered in 100 calls of 4 steps with the states carried forward
	var states []float64
	last := 0.0
	for w := 0; w < n/4; w++ {
		seg := cc.RunSeg(4*w, 4*w+4, states)
		states, last = seg.States, seg.Out[0][3]
	}
	if math.Abs(last-(I+L)) > 1e-9*(I+L)+1e-12 {
		r.Failf("C11/Muskingum/steady-flow-not-passed-when-run-in-windows/"+lat, map[string]interface{}{"params": p, "inflow": I, "lateral": L, "outflow_after_100_windows_of_4": last}, "Muskingum K=%g X=%g: steady inflow %g + lateral %g in 4-step windows gives outflow %g", p["K"], p["X"], I, L, last)
		return
	}
	if I+L > 0 {
		r.MarkNontrivial()
	}
}

// ---- Lag
func lagOracle(c *gridx.Case, r *vf.Rec) {
	lag := int(c.Params[0])
	var init []float64
	if c.IIdx == 1 {
		init = make([]float64, lag)
		for i := range init {
			init[i] = 101 + float64(i)
		}
		if lag == 0 {
			init = nil
		}
	}
	cc := *c
	cc.Init = init
	res := cc.Run()
	n := c.T
	in := c.Inputs[0]
	buf := make([]float64, lag)
	copy(buf, init)
	cls := "lag<=n"
	if lag > n {
		cls = "lag>n"
	}
	if lag == 0 {
		cls = "lag=0"
	}
	want := make([]float64, n)
	// reference: a FIFO queue
	q := append([]float64{}, buf...)
	for t := 0; t < n; t++ {
		q = append(q, in[t])
		want[t] = q[0]
		q = q[1:]
	}
	d := map[string]interface{}{"lag": lag, "inflow": in, "initial_buffer": buf, "outflow": res.Out[0], "want_outflow": want, "final_buffer": res.States, "want_final_buffer": q}
	for t := 0; t < n; t++ {
		if res.Out[0][t] != want[t] {
			r.Failf("C11/Lag/outflow-not-delayed-inflow/"+cls, d, "Lag %d, n=%d: outflow %v, want %v", lag, n, res.Out[0], want)
			return
		}
	}
	if len(res.States) != lag {
		r.Failf("C11/Lag/buffer-length/"+cls, d, "Lag %d: final buffer has %d entries", lag, len(res.States))
		return
	}
	for i := 0; i < lag; i++ {
		if res.States[i] != q[i] {
			r.Failf("C11/Lag/final-buffer-wrong/"+cls, d, "Lag %d, n=%d: final buffer %v, want %v", lag, n, res.States, q)
			return
		}
	}
	// the same cell next to a cell with the longest lag (8) in ONE vectorised model, the series delivered in windows of
	// one and of two steps with the rectangular state array carried forward: the delay must still be the cell's own lag
	if c.IIdx == 0 {
		for _, win := range []int{1, 2} {
			var states data.ND2Float64
			var got []float64
			other := make([]float64, n)
			for from := 0; from < n; from += win {
				to := from + win
				if to > n {
					to = n
				}
				seg := [][][]float64{{in[from:to]}, {other[from:to]}}
				var out [][][]float64
				out, states = mrun.RunCells("Lag", [][]float64{{float64(lag)}, {8}}, seg, to-from, states)
				got = append(got, out[0][0]...)
			}
			for t := 0; t < n; t++ {
				if got[t] != want[t] {
					r.Failf("C11/Lag/outflow-not-delayed-inflow/next-to-a-longer-lag-cell/"+cls, map[string]interface{}{"lag": lag, "window": win, "inflow": in, "outflow": got, "want_outflow": want},
						"Lag %d next to a lag-8 cell, windows of %d: outflow %v, want %v", lag, win, got, want)
					return
				}
			}
			r.Count("lag_windowed_paired_runs", 1)
		}
	}
	r.MarkNontrivial()
}

func spaces(tier string) []*gridx.Space {
	T := 4
	if tier == "thorough" {
		T = 6
	}
	var out []*gridx.Space
	A := func(n string, v ...float64) gridx.Axis { return gridx.Axis{Name: n, Vals: v} }

	// StorageRouting
	var sp [][]float64
	var sn []string
	// m = 0.9995 lies inside the kernel's own |m-1| < 0.001 special-casing window (used for non-zero bias only);
	// small m with a large k makes S(Q) so steep near zero flow that the root search stops on its convergence limit
	for _, km := range [][2]float64{{21600, 1}, {86400, 0.8}, {172800, 0.6}, {50000, 0.9995}, {1e6, 0.3}, {1e6, 0.2}, {5e6, 0.5}, {2e5, 0.4}} {
		ps, pn := gridx.Grid("StorageRouting", map[string]float64{"RoutingConstant": km[0], "RoutingPower": km[1], "DeltaT": 86400},
			[]gridx.Axis{A("deadStorage", 0, 5e4), A("InflowBias", 0, 0.2), A("area", 0, 1e4)})
		for i := range ps {
			sp = append(sp, ps[i])
			sn = append(sn, fmt.Sprintf("k=%g m=%g %s", km[0], km[1], pn[i]))
		}
	}
	srLetters := [][]float64{{0, 0, 0, 0}, {0.5, 0, 0, 0}, {20, 0, 0, 0}, {500, 3, 0, 0}, {0, 3, 0, 0}, {20, 0, 10, 0}, {0.5, 0, 0, 8}, {0, 0, 0, 8}, {0, 0, 10, 0}, {0.5, 0, 10, 2}, {0, 0, 2, 0.5}}
	out = append(out, &gridx.Space{Model: "StorageRouting", Params: sp, PNames: sn, Letters: srLetters, T: T, Oracle: srOracle, SecondPassEvery: 8})

	// Muskingum: (K, X) with 2KX <= dt <= 2K(1-X)
	var mp [][]float64
	var mn []string
	for _, kx := range [][2]float64{{43200, 0}, {43200, 0.5}, {86400, 0.2}, {86400, 0.5}, {172800, 0.1}, {172800, 0.25}, {60000, 0.3}, {200000, 0.2}} {
		dt := 86400.0
		if 2*kx[0]*kx[1] <= dt && dt <= 2*kx[0]*(1-kx[1]) {
			mp = append(mp, gridx.PV("Muskingum", map[string]float64{"K": kx[0], "X": kx[1], "DeltaT": dt}))
			mn = append(mn, fmt.Sprintf("K=%g X=%g", kx[0], kx[1]))
		}
	}
	mLetters := gridx.LettersProduct([]float64{0, 10, 50}, []float64{0, 4})
	out = append(out, &gridx.Space{Name: "Muskingum/event", Model: "Muskingum", Params: mp, PNames: mn, Letters: mLetters, T: T + 1, Oracle: muskOracle(600)})
	out = append(out, &gridx.Space{Name: "Muskingum/steady", Model: "Muskingum", Params: mp, PNames: mn, Letters: mLetters, T: 1, Oracle: muskSteady})

	// Lag
	lp, ln := gridx.Grid("Lag", nil, []gridx.Axis{A("timeLag", 0, 1, 2, 3, 5, 8)})
	out = append(out, &gridx.Space{Model: "Lag", Params: lp, PNames: ln, Letters: [][]float64{{0}, {1}, {7}}, T: T + 2, MinT: 1, Inits: [][]float64{nil, {}}, Oracle: lagOracle})
	return out
}

func Spec() *vf.Check {
	return &vf.Check{
		ID: "C11", Level: "exploration", BlockSize: 512,
		Rule: "StorageRouting: (k,m) in {(21600,1),(86400,0.8),(172800,0.6),(50000,0.9995),(1e6,0.3),(1e6,0.2),(5e6,0.5),(2e5,0.4)} x dead storage {0,5e4} x bias {0,0.2} x area {0,1e4} x every word of length T over 11 (inflow,lateral,rain,evap) letters: per-step balance, Q>=0, S>=0, S=k*Q^m+dead within the solver tolerance (bias 0). " +
			"Muskingum: (K,X) grid in the stable region x every (inflow,lateral) word + 600-step zero tail: event volume conserved (also when the event is cut into consecutive calls, states carried forward: every combination of cuts for events of up to 4 steps, every single cut / a cut after every step / after every second step for longer ones), no negative outflow; every letter as a 400-step steady flow passes unchanged (in one call and in 100 calls of 4 steps). " +
			"Lag: lag {0,1,2,3,5,8} x every word of every length 1..T+2 over {0,1,7} x {zero, pre-filled} carried-over buffer: FIFO reference for outputs and final buffer; also next to a lag-8 cell in one vectorised model, delivered in windows of 1 and 2 steps. distinct_nontrivial = cases with non-zero flow.",
		Assumptions: []string{"potential net evaporation is bounded using the loosest reading of the units (area*(evap-rain)/dt)", "StorageRouting S(Q) law is required up to the solver's two stopping tolerances: a balance residual <= massBalanceLimit or an index flow within 2*convergenceLimit of the exact root (near Q=0 with m<1 the S(Q) slope is unbounded, so the second one matters); the exact root is found by bisection in the harness", "lattice values only"},
		Build:       func(tier string) vf.Enumeration { return gridx.NewEnum("C11", spaces(tier)) },
	}
}
