package c07

// C07 (iii): the TLA+ model of the writer hand-off (tla/OwSimWriter.tla), checked exhaustively by TLC, and
// bound to the code: every abstract event trace recorded from the real ow-sim under the controlled
// scheduler must be a path of the state graph TLC dumps; the model edges those traces exercise are counted.

import (
	"bufio"
	"fmt"
	"os"
	"os/exec"
	"path/filepath"
	"regexp"
	"strconv"
	"strings"

	"owverif.local/verif/vf"
)

type mgraph struct {
	G     int
	init  string
	event map[string]string   // node -> "run0", "wb1", "we1", "purge0", "tau", "init"
	succ  map[string][]string // node -> successors (without self loops)
	edges int
	label map[string]string // node -> TLC's state text (one line)
	// TLC statistics
	generated, distinct, depth int
}

func tlaDir(G int) string { return filepath.Join(vf.Root, ".build", "tla", fmt.Sprintf("G%d", G)) }

// runTLC model-checks the spec for G generations and dumps the labelled state graph.
func runTLC(G int) (string, error) {
	dir := tlaDir(G)
	os.RemoveAll(dir)
	os.MkdirAll(dir, 0755)
	spec, err := os.ReadFile(filepath.Join(vf.Root, "tla", "OwSimWriter.tla"))
	if err != nil {
		return "", err
	}
	os.WriteFile(filepath.Join(dir, "OwSimWriter.tla"), spec, 0644)
	cfg := fmt.Sprintf("CONSTANT G = %d\nINIT Init\nNEXT Next\nINVARIANT M1\nINVARIANT M2\nINVARIANT M4\nINVARIANT TypeOK\nCHECK_DEADLOCK TRUE\n", G)
	os.WriteFile(filepath.Join(dir, "OwSimWriter.cfg"), []byte(cfg), 0644)
	cmd := exec.Command("tlc", "-workers", "2", "-dump", "dot,actionlabels", "graph.dot", "OwSimWriter.tla")
	cmd.Dir = dir
	out, err := cmd.CombinedOutput()
	os.WriteFile(filepath.Join(dir, "tlc.out"), out, 0644)
	return string(out), err
}

var nodeRe = regexp.MustCompile(`^(-?\d+) \[label="(.*?)",(?:style|tooltip)`)
var edgeRe = regexp.MustCompile(`^(-?\d+) -> (-?\d+) \[label="([^"]*)"`)
var evRe = regexp.MustCompile(`lastEvent = <<\\"(\w+)\\", (\d+)>>`)

func loadGraph(G int) (*mgraph, error) {
	dir := tlaDir(G)
	f, err := os.Open(filepath.Join(dir, "graph.dot"))
	if err != nil {
		return nil, err
	}
	defer f.Close()
	g := &mgraph{G: G, event: map[string]string{}, succ: map[string][]string{}, label: map[string]string{}}
	sc := bufio.NewScanner(f)
	sc.Buffer(make([]byte, 1<<20), 1<<26)
	seenEdge := map[string]bool{}
	for sc.Scan() {
		line := sc.Text()
		if m := edgeRe.FindStringSubmatch(line); m != nil {
			if m[1] != m[2] && !seenEdge[m[1]+">"+m[2]] {
				seenEdge[m[1]+">"+m[2]] = true
				g.succ[m[1]] = append(g.succ[m[1]], m[2])
				g.edges++
			}
			continue
		}
		if m := nodeRe.FindStringSubmatch(line); m != nil {
			ev := evRe.FindStringSubmatch(m[2])
			if ev == nil {
				return nil, fmt.Errorf("no lastEvent in node %s", m[1])
			}
			name := ev[1]
			if name != "tau" && name != "init" {
				name += ev[2]
			}
			g.event[m[1]] = name
			g.label[m[1]] = strings.NewReplacer("\\n", " ", "\\\"", "'", "/\\\\", "/\\").Replace(m[2])
			if name == "init" {
				g.init = m[1]
			}
		}
	}
	out, _ := os.ReadFile(filepath.Join(dir, "tlc.out"))
	if m := regexp.MustCompile(`(\d+) states generated, (\d+) distinct states found`).FindStringSubmatch(string(out)); m != nil {
		g.generated, _ = strconv.Atoi(m[1])
		g.distinct, _ = strconv.Atoi(m[2])
	}
	if m := regexp.MustCompile(`depth of the complete state graph search is (\d+)`).FindStringSubmatch(string(out)); m != nil {
		g.depth, _ = strconv.Atoi(m[1])
	}
	if g.init == "" {
		return nil, fmt.Errorf("no initial state in the dump")
	}
	return g, nil
}

func (g *mgraph) closure(set map[string]bool, used map[string]bool) map[string]bool {
	stack := make([]string, 0, len(set))
	for s := range set {
		stack = append(stack, s)
	}
	for len(stack) > 0 {
		s := stack[len(stack)-1]
		stack = stack[:len(stack)-1]
		for _, t := range g.succ[s] {
			if g.event[t] == "tau" && !set[t] {
				set[t] = true
				if used != nil {
					used[s+">"+t] = true
				}
				stack = append(stack, t)
			}
		}
	}
	return set
}

// accepts simulates an abstract event trace on the model graph (tau-closed subset construction).
// It returns the index of the first event the model cannot follow (-1 if the trace is a model behaviour).
func (g *mgraph) accepts(trace []string, used map[string]bool) int {
	cur := g.closure(map[string]bool{g.init: true}, used)
	for i, e := range trace {
		next := map[string]bool{}
		for s := range cur {
			for _, t := range g.succ[s] {
				if g.event[t] == e {
					next[t] = true
					if used != nil {
						used[s+">"+t] = true
					}
				}
			}
		}
		if len(next) == 0 {
			return i
		}
		cur = g.closure(next, used)
	}
	return -1
}

var graphCache = map[int]*mgraph{}

func modelGraph(G int) (*mgraph, error) {
	if g, ok := graphCache[G]; ok {
		return g, nil
	}
	g, err := loadGraph(G)
	if err == nil {
		graphCache[G] = g
	}
	return g, err
}

// tlaPre runs TLC for every generation count used by the schedule shapes (supervisor, once per check run).
func tlaPre(tier string, r *vf.Rec) {
	Gs := []int{2, 3}
	if tier == "thorough" {
		Gs = []int{2, 3, 4}
	}
	for _, G := range Gs {
		out, err := runTLC(G)
		if err != nil || !strings.Contains(out, "No error has been found") {
			// the model is part of /verif and does not depend on /repo: a TLC problem is a harness problem
			// (tool unavailable, or the model itself is wrong), never a verdict about the code
			first := ""
			for _, l := range strings.Split(out, "\n") {
				if strings.Contains(l, "Error") || strings.Contains(l, "violated") || strings.Contains(l, "Deadlock") {
					first = l
					break
				}
			}
			r.Count("tla_part_unavailable", 1)
			r.Note(fmt.Sprintf("tlc-problem/G=%d", G), fmt.Sprintf("TLC did not confirm the model: %s %v", first, err))
			continue
		}
		g, err := loadGraph(G)
		if err != nil {
			r.Count("tla_part_unavailable", 1)
			r.Note(fmt.Sprintf("tlc-problem/G=%d", G), fmt.Sprintf("cannot read TLC's state graph: %v", err))
			continue
		}
		r.Count("tlc_distinct_states", int64(g.distinct))
		r.Count("tlc_states_generated", int64(g.generated))
		r.Count("tlc_model_edges", int64(g.edges))
		r.Note(fmt.Sprintf("tlc/G=%d", G), fmt.Sprintf("distinct_states=%d generated=%d depth=%d edges=%d invariants M1 M2 M4 TypeOK hold, no deadlock", g.distinct, g.generated, g.depth, g.edges))
	}
}
