package c07

import (
	"fmt"
	"reflect"
	"sort"
	"strings"

	"github.com/flowmatters/openwater-core/sim"
	"gonum.org/v1/hdf5"
	"owverif.local/verif/mrun"
	"owverif.local/verif/tables"
)

// Palette of node types: distinguishable, cheap semantics.
// The last type has a table-valued ("dimensioned") parameter: its parameter rows in the file are laid out for the
// longest table over ALL its nodes. It only appears in the dedicated sub-family (dimensionedFamily).
var Palette = []string{"Input", "Sum", "FixedPartition", "RunoffCoefficient", "Muskingum", "RatingCurvePartition"}

const nEnumTypes = 5 // types enumerated by the main family
const dimType = 5

const maxGen = 4

type nodeRef struct{ Typ, Gen, K int }

type glink struct {
	Src    nodeRef
	SrcVar int
	Dst    nodeRef
	DstVar int
}

type graph struct {
	G            int
	Counts       [6][maxGen]int
	TableLens    []int // dimensioned nodes: table length of row r is TableLens[r % len]
	Links        []glink
	T            int
	StoredInputs bool   // non-Input types also come with stored /inputs
	Flag         string // "", "outputs-for", "no-outputs-for", "inputs-for", "no-inputs-for"
	FlagType     int
	FlagForm     int // how the flag's list names the type: see flagList
	WithOutput   bool
	Reversed     bool // model types listed in /META/models in reverse palette order (types without stored inputs first)
}

func (g *graph) String() string {
	var parts []string
	for t := range Palette {
		c := []string{}
		tot := 0
		for gen := 0; gen < g.G; gen++ {
			c = append(c, fmt.Sprint(g.Counts[t][gen]))
			tot += g.Counts[t][gen]
		}
		if tot > 0 {
			parts = append(parts, Palette[t]+"["+strings.Join(c, ",")+"]")
		}
	}
	ls := []string{}
	for _, l := range g.Links {
		ls = append(ls, fmt.Sprintf("%s(g%d,%d).out%d->%s(g%d,%d).in%d", Palette[l.Src.Typ], l.Src.Gen, l.Src.K, l.SrcVar, Palette[l.Dst.Typ], l.Dst.Gen, l.Dst.K, l.DstVar))
	}
	return fmt.Sprintf("G=%d T=%d %s links{%s} stored=%v flag=%s:%s output=%v reversed-names=%v", g.G, g.T, strings.Join(parts, " "), strings.Join(ls, " "), g.StoredInputs, g.Flag, g.flagList(), g.WithOutput, g.Reversed)
}

func (g *graph) batches(t int) []int32 {
	out := make([]int32, g.G)
	c := 0
	for gen := 0; gen < g.G; gen++ {
		c += g.Counts[t][gen]
		out[gen] = int32(c)
	}
	return out
}

func (g *graph) total(t int) int { return int(g.batches(t)[g.G-1]) }

func (g *graph) row(n nodeRef) int {
	r := n.K
	for gen := 0; gen < n.Gen; gen++ {
		r += g.Counts[n.Typ][gen]
	}
	return r
}

func desc(t int) sim.ModelDescription { return sim.Catalog[Palette[t]]().Description() }

func (g *graph) params(t, row int) []float64 {
	switch Palette[t] {
	case "FixedPartition":
		return []float64{0.2 + 0.1*float64(row)}
	case "RunoffCoefficient":
		return []float64{0.3 + 0.1*float64(row)}
	case "Muskingum":
		return []float64{86400 * (1 + 0.25*float64(row)), 0.2, 86400}
	case "RatingCurvePartition":
		// [nPts, inputAmount knots..., proportion values...] with this node's own table length
		switch g.tableLen(row) {
		case 2:
			return []float64{2, 0, 5000, 0.1 * float64(row+1), 1} // (knots cover every input value the graphs produce)
		case 3:
			return []float64{3, 0, 10, 5000, 1, 0.35, 0.05 * float64(row)}
		}
		return []float64{4, 0, 0.3, 7, 5000, 0, 0.1, 0.35 + 0.1*float64(row), 0.9}
	}
	return nil
}

func (g *graph) tableLen(row int) int {
	if len(g.TableLens) == 0 {
		return 3
	}
	return g.TableLens[row%len(g.TableLens)]
}

// types listed in the file: the five plain types always (also without nodes), the dimensioned one only when it has nodes
func (g *graph) types() []int {
	out := []int{0, 1, 2, 3, 4}
	if g.total(dimType) > 0 {
		out = append(out, dimType)
	}
	return out
}

// fileParams: a node's parameter column as stored in the file (tables padded to the longest table of the type)
func (g *graph) fileParams(t, row int) []float64 {
	v := g.params(t, row)
	if t != dimType {
		return v
	}
	maxN := 0
	for r := 0; r < g.total(t); r++ {
		if n := g.tableLen(r); n > maxN {
			maxN = n
		}
	}
	return tables.Repack(Palette[t], v, maxN)
}

func (g *graph) initStates(t, row int) []float64 {
	if Palette[t] == "Muskingum" {
		return []float64{0, 1 + float64(row), 2 + float64(row)}
	}
	return make([]float64, len(desc(t).States))
}

func (g *graph) hasStored(t int) bool { return Palette[t] == "Input" || g.StoredInputs }

func (g *graph) stored(t, row, in, ts int) float64 {
	if !g.hasStored(t) {
		return 0
	}
	return 1 + float64(t)*100 + float64(row)*10 + float64(in)*3 + float64(ts)
}

// sortedLinks: ow-sim consumes the link table in order of source generation.
func (g *graph) sortedLinks() []glink {
	ls := append([]glink{}, g.Links...)
	sort.SliceStable(ls, func(a, b int) bool { return ls[a].Src.Gen < ls[b].Src.Gen })
	return ls
}

// write stores the model-graph file through the fake library's back door.
func (g *graph) write(fn string) {
	hdf5.FakeRemove(fn)
	ts := g.types()
	names := make([]string, len(ts))
	pos := make([]int, len(Palette))
	for i, t := range ts {
		j := i
		if g.Reversed {
			j = len(ts) - 1 - i
		}
		names[j] = Palette[t]
		pos[t] = j
	}
	hdf5.FakePutStrings(fn, "/META/models", names, 32)
	hdf5.FakePutGroup(fn, "/DIMENSIONS")
	ls := g.sortedLinks()
	links := make([]uint32, 0, len(ls)*10)
	for _, l := range ls {
		links = append(links, uint32(l.Src.Gen), uint32(pos[l.Src.Typ]), uint32(g.row(l.Src)), uint32(l.Src.K), uint32(l.SrcVar),
			uint32(l.Dst.Gen), uint32(pos[l.Dst.Typ]), uint32(g.row(l.Dst)), uint32(l.Dst.K), uint32(l.DstVar))
	}
	hdf5.FakePutDataset(fn, "/LINKS", []int{len(ls), 10}, links)
	for _, t := range g.types() {
		name := Palette[t]
		d := desc(t)
		tot := g.total(t)
		base := "/MODELS/" + name + "/"
		hdf5.FakePutDataset(fn, base+"batches", []int{g.G}, g.batches(t))
		np, ns, ni := len(d.Parameters), len(d.States), len(d.Inputs)
		if t == dimType {
			np = len(g.fileParams(t, 0))
		}
		params := make([]float64, np*tot)
		states := make([]float64, tot*ns)
		for row := 0; row < tot; row++ {
			for p, v := range g.fileParams(t, row) {
				params[p*tot+row] = v
			}
			for s, v := range g.initStates(t, row) {
				states[row*ns+s] = v
			}
		}
		hdf5.FakePutDataset(fn, base+"parameters", []int{np, tot}, params)
		hdf5.FakePutDataset(fn, base+"states", []int{tot, ns}, states)
		if g.hasStored(t) {
			in := make([]float64, tot*ni*g.T)
			for row := 0; row < tot; row++ {
				for i := 0; i < ni; i++ {
					for ts := 0; ts < g.T; ts++ {
						in[(row*ni+i)*g.T+ts] = g.stored(t, row, i, ts)
					}
				}
			}
			hdf5.FakePutDataset(fn, base+"inputs", []int{tot, ni, g.T}, in)
		}
	}
}

// expected: the sequential reference semantics.
type expected struct {
	outputs, inputs, states map[string][]float64 // by model name, row-major over [total, vars, T] / [total, states]
	shapes                  map[string][]int
}

// flagList is the text given to the selection flag: the type's exact name, alone or in a list, or names that merely
// resemble it (an extension, a proper prefix, a suffix match), which select nothing.
func (g *graph) flagList() string {
	m := Palette[g.FlagType]
	other := Palette[(g.FlagType+1)%len(Palette)]
	switch g.FlagForm {
	case 1:
		return m + "Alt"
	case 2:
		return m[:len(m)-1]
	case 3:
		return "X" + m
	case 4:
		return other + "," + m
	case 5:
		return m + "Alt," + other
	}
	return m
}

func writeFor(model, flag, list string, kind string, def bool) bool {
	// the command line semantics: a comma-separated list of exact model names; include list wins, then exclude list, then the default
	named := false
	for _, n := range strings.Split(list, ",") {
		if n == model {
			named = true
		}
	}
	if flag == kind+"-for" && named {
		return true
	}
	if flag == "no-"+kind+"-for" && named {
		return false
	}
	return def
}

func (g *graph) reference() map[string]hdf5.FakeEntry {
	out := map[string]hdf5.FakeEntry{}
	// accumulated inputs per (type,row)
	acc := map[[2]int][][]float64{}
	res := map[[2]int]mrun.Result{}
	for t := range Palette {
		ni := len(desc(t).Inputs)
		for row := 0; row < g.total(t); row++ {
			in := make([][]float64, ni)
			for i := range in {
				in[i] = make([]float64, g.T)
				for ts := range in[i] {
					in[i][ts] = g.stored(t, row, i, ts)
				}
			}
			acc[[2]int{t, row}] = in
		}
	}
	for gen := 0; gen < g.G; gen++ {
		for t := range Palette {
			for k := 0; k < g.Counts[t][gen]; k++ {
				row := g.row(nodeRef{t, gen, k})
				res[[2]int{t, row}] = mrun.RunCell(Palette[t], g.params(t, row), acc[[2]int{t, row}], g.T, g.initStates(t, row))
			}
		}
		for _, l := range g.sortedLinks() {
			if l.Src.Gen != gen {
				continue
			}
			src := res[[2]int{l.Src.Typ, g.row(l.Src)}]
			dst := acc[[2]int{l.Dst.Typ, g.row(l.Dst)}]
			for ts := 0; ts < g.T; ts++ {
				dst[l.DstVar][ts] += src.Out[l.SrcVar][ts]
			}
		}
	}
	flagModel := g.flagList()
	for t, name := range Palette {
		tot := g.total(t)
		if tot == 0 {
			continue
		}
		d := desc(t)
		no, ni, ns := len(d.Outputs), len(d.Inputs), len(d.States)
		base := "/MODELS/" + name + "/"
		if writeFor(name, g.Flag, flagModel, "outputs", true) {
			v := make([]float64, tot*no*g.T)
			for row := 0; row < tot; row++ {
				for o := 0; o < no; o++ {
					copy(v[(row*no+o)*g.T:], res[[2]int{t, row}].Out[o])
				}
			}
			out[base+"outputs"] = hdf5.FakeEntry{Dims: []int{tot, no, g.T}, Values: v}
		}
		if writeFor(name, g.Flag, flagModel, "inputs", g.Counts[t][0] == 0) {
			v := make([]float64, tot*ni*g.T)
			for row := 0; row < tot; row++ {
				for i := 0; i < ni; i++ {
					copy(v[(row*ni+i)*g.T:], acc[[2]int{t, row}][i])
				}
			}
			out[base+"inputs"] = hdf5.FakeEntry{Dims: []int{tot, ni, g.T}, Values: v}
		}
		v := make([]float64, tot*ns)
		for row := 0; row < tot; row++ {
			copy(v[row*ns:], res[[2]int{t, row}].States)
		}
		out[base+"states"] = hdf5.FakeEntry{Dims: []int{tot, ns}, Values: v}
	}
	return out
}

// compare returns "" when the output file equals the reference.
func compare(got, want map[string]hdf5.FakeEntry) string {
	var keys []string
	for k := range want {
		keys = append(keys, k)
	}
	sort.Strings(keys)
	for _, k := range keys {
		g, ok := got[k]
		if !ok {
			return "dataset " + k + " is missing from the output file"
		}
		if !reflect.DeepEqual(g.Dims, want[k].Dims) {
			return fmt.Sprintf("dataset %s has shape %v, reference %v", k, g.Dims, want[k].Dims)
		}
		gv, _ := g.Values.([]float64)
		wv := want[k].Values.([]float64)
		for i := range wv {
			if i >= len(gv) || !mrun.SameBits(gv[i], wv[i]) {
				return fmt.Sprintf("dataset %s element %d is %v, the sequential reference gives %v", k, i, at(gv, i), wv[i])
			}
		}
	}
	for k := range got {
		if _, ok := want[k]; !ok {
			return "unexpected dataset " + k + " in the output file"
		}
	}
	return ""
}

func at(v []float64, i int) interface{} {
	if i < len(v) {
		return v[i]
	}
	return "missing"
}
