// Package c07: ow-sim executes a model graph exactly like the sequential reference semantics.
//
// The real cmd/ow-sim code (rewritten for the controlled scheduler, compiled against the in-memory HDF5
// stand-in) is linked into this check: RunSimulation is ow-sim's run_simulation.
package c07

import (
	"fmt"
	"os"
	"path/filepath"
	"sort"
	"strings"

	"gonum.org/v1/hdf5"
	"owverif.local/verif/sched"
	"owverif.local/verif/vf"
	"owverif.local/verif/vrt"
)

// set by the main file added to package main of cmd/ow-sim
var RunSimulation func(args []string)
var SetFlags func(outputsFor, noOutputsFor, inputsFor, noInputsFor string, overwrite bool)

func files() (string, string) {
	dir := filepath.Join(vf.Root, ".build", "h5")
	os.MkdirAll(dir, 0755)
	return filepath.Join(dir, fmt.Sprintf("c07-in-%d.h5", os.Getpid())), filepath.Join(dir, fmt.Sprintf("c07-out-%d.h5", os.Getpid()))
}

func (g *graph) setFlags() {
	var of, nof, inf, ninf string
	m := g.flagList()
	switch g.Flag {
	case "outputs-for":
		of = m
	case "no-outputs-for":
		nof = m
	case "inputs-for":
		inf = m
	case "no-inputs-for":
		ninf = m
	}
	SetFlags(of, nof, inf, ninf, true)
}

// ---------------------------------------------------------------------------------------------
// protocol monitor (M1..M4) over the event stream of one execution

type monitor struct {
	G         int
	written   map[int]bool // writeGeneration(g) returned
	writing   map[int]int  // writeGeneration(g) entered (count)
	linksDone map[int]bool
	purged    map[int]bool
	lastRun   int
	problem   string
	abstract  []string // projection to the model's event alphabet
	lastEv    map[int]string
}

// probesComplete: all four probed functions (runGeneration, writeGeneration, PurgeGeneration, GetGeneration) exist
// under these names in the current tree. If one was renamed or inlined the event stream is partial and the protocol
// monitors M1-M4 and the model conformance would misread it; they are then switched off (counted in the evidence) and
// the check rests on output equality, block-written-once, deadlock and race detection.
func probesComplete() bool { return vrt.ProbeCount == "" || vrt.ProbeCount == "4" }

func newMonitor(G int) *monitor {
	return &monitor{G: G, written: map[int]bool{}, writing: map[int]int{}, linksDone: map[int]bool{}, purged: map[int]bool{}, lastRun: -1, lastEv: map[int]string{}}
}

func (m *monitor) fail(s string) {
	if m.problem == "" {
		m.problem = s
	}
}

func (m *monitor) event(e vrt.Event) {
	if e.Op == vrt.OpRecv {
		m.lastEv[e.Thread] = "" // a new token receipt starts a new purge batch
	}
	if e.Op != vrt.OpProbe {
		return
	}
	g := e.Obj
	switch e.Name {
	case "runGeneration":
		// entering runGeneration(g) means the links of generation g-1 have been applied
		if g > 0 {
			m.linksDone[g-1] = true
		}
		m.lastRun = g
		m.abstract = append(m.abstract, fmt.Sprintf("run%d", g))
	case "finalWait":
		m.linksDone[m.G-1] = true
		_ = g
	case "writeGeneration":
		m.writing[g]++
		if m.writing[g] > 1 {
			m.fail(fmt.Sprintf("M3/generation-written-twice: writeGeneration(%d) entered %d times", g, m.writing[g]))
		}
		if m.purged[g] {
			m.fail(fmt.Sprintf("M2/write-after-purge: writeGeneration(%d) after generation %d was purged", g, g))
		}
		m.abstract = append(m.abstract, fmt.Sprintf("wb%d", g))
	case "writeGeneration.exit":
		m.written[g] = true
		m.abstract = append(m.abstract, fmt.Sprintf("we%d", g))
	case "PurgeGeneration":
		if !m.written[g] {
			m.fail(fmt.Sprintf("M1/purge-before-write: generation %d purged before it was written", g))
		}
		if !m.linksDone[g] {
			m.fail(fmt.Sprintf("M1/purge-before-links: generation %d purged before its outgoing links were applied", g))
		}
		if ev := fmt.Sprintf("purge%d", g); m.lastEv[e.Thread] != ev {
			m.lastEv[e.Thread] = ev // one model event per token receipt (the code purges once per model type)
			m.abstract = append(m.abstract, ev)
		}
		m.purged[g] = true
	case "GetGeneration":
		if m.purged[g] {
			m.fail(fmt.Sprintf("M2/get-after-purge: GetGeneration(%d) after generation %d was purged", g, g))
		}
	}
}

func (m *monitor) end(withOutput bool) {
	if !withOutput {
		return
	}
	for g := 0; g < m.G; g++ {
		if !m.written[g] {
			m.fail(fmt.Sprintf("M4/generation-not-written: run_simulation returned before generation %d was written", g))
		}
	}
}

// ---------------------------------------------------------------------------------------------
// one graph: run (default schedule or explored), compare

func (g *graph) harness(keepAbstract *[][]string) *sched.Harness {
	in, out := files()
	want := g.reference()
	var mon *monitor
	return &sched.Harness{
		Name: g.String(),
		Reset: func() {
			hdf5.Hook = vrt.Call
			hdf5.FakeRemove(out)
			os.Remove(out)
			g.write(in)
			hdf5.FakeClearWrites()
			g.setFlags()
		},
		Body: func() {
			args := []string{in}
			if g.WithOutput {
				args = append(args, out)
			}
			RunSimulation(args)
			vrt.Probe("returned", 0, 0)
		},
		MaxSteps: 4000,
		Observe: func(r vrt.Result) sched.Outcome {
			// the monitors run over the recorded event log, on the harness goroutine (never inside a logical thread)
			mon = newMonitor(g.G)
			if probesComplete() {
				for _, e := range r.Events {
					mon.event(e)
				}
				mon.end(g.WithOutput)
			}
			if keepAbstract != nil {
				*keepAbstract = append(*keepAbstract, append([]string{}, mon.abstract...))
			}
			if r.Exited {
				return sched.Outcome{Key: "exit", Problem: "ow-sim-exits", Detail: fmt.Sprintf("ow-sim called os.Exit(%d) on a valid model graph", r.ExitCode)}
			}
			if mon.problem != "" {
				return sched.Outcome{Key: "monitor", Problem: strings.SplitN(mon.problem, ":", 2)[0], Detail: mon.problem}
			}
			if !g.WithOutput {
				return sched.Outcome{Key: "no-output"}
			}
			got, _ := hdf5.FakeDump(out)
			if bad := compare(got, want); bad != "" {
				return sched.Outcome{Key: "differs:" + bad, Problem: "output-differs-from-sequential-reference", Detail: bad}
			}
			// every (dataset, row block) written exactly once
			seen := map[string]int{}
			for _, w := range hdf5.FakeWrites() {
				if w.File == out {
					seen[fmt.Sprintf("%s@%v", w.Path, w.Offset)]++
				}
			}
			for k, n := range seen {
				if n != 1 {
					return sched.Outcome{Key: "rewrite", Problem: "M3/block-written-twice", Detail: fmt.Sprintf("%s written %d times", k, n)}
				}
			}
			keys := make([]string, 0, len(got))
			for k := range got {
				keys = append(keys, k)
			}
			sort.Strings(keys)
			return sched.Outcome{Key: "ok:" + strings.Join(keys, ",")}
		},
	}
}

func clsGraph(g *graph) string {
	c := fmt.Sprintf("G=%d/links=%d", g.G, len(g.Links))
	if g.Flag != "" {
		c += "/" + g.Flag
	}
	if !g.WithOutput {
		c += "/no-output-file"
	}
	return c
}

// runGraph: mode "default" = the default schedule only; otherwise explore with the preemption bound.
var maxExec = 150000

func runGraphShard(g *graph, bound, shard int, r *vf.Rec) {
	var traces [][]string
	runGraphX(g, bound, true, shard, r, &traces)
}

func hashEdge(G int, e string) uint64 {
	h := uint64(1469598103934665603) ^ uint64(G)
	for i := 0; i < len(e); i++ {
		h = (h ^ uint64(e[i])) * 1099511628211
	}
	return h
}

func runGraph(g *graph, bound int, explore bool, r *vf.Rec, traces *[][]string) {
	runGraphX(g, bound, explore, 0, r, traces)
}

func runGraphX(g *graph, bound int, explore bool, shard int, r *vf.Rec, traces *[][]string) {
	h := g.harness(traces)
	report := func(kind string, detail interface{}, choices []int, events []string) {
		r.Failf("C07/"+kind+"/"+clsGraph(g), map[string]interface{}{"graph": g.String(), "schedule": choices, "detail": detail, "events": tail(events, 60)}, "%s: %v [graph %s]", kind, detail, g.String())
	}
	if !explore {
		res, o := sched.Replay(h, nil)
		r.Count("graphs_run", 1)
		switch {
		case res.Deadlock:
			report("deadlock", "no thread can move", nil, evs(res))
		case res.Panic != "":
			report("panic", res.Panic, nil, evs(res))
		case res.Horizon:
			r.Count("horizon_hits", 1)
		case res.Races > 0:
			report("data-race", fmt.Sprintf("%d race report(s)", res.Races), nil, evs(res))
		case o.Problem != "":
			report(o.Problem, o.Detail, nil, evs(res))
		default:
			r.MarkNontrivial()
		}
		return
	}
	ex := &sched.Explorer{Deviations: true, Bound: bound, MaxExec: maxExec, Shard: shard, NShards: nshards}
	st := ex.Explore(h)
	r.Count("schedules", int64(st.Executions))
	r.Count("scheduling_points", int64(st.Points))
	r.Count("horizon_hits", int64(st.HorizonHits))
	if !st.Complete {
		r.Count("explorations_cut_by_cap_or_horizon", 1)
	}
	if !probesComplete() {
		r.Count("protocol_monitors_and_model_conformance_skipped_probe_functions_renamed", 1)
		traces = nil
	}
	if traces != nil {
		// conformance, impl within model: every recorded abstract trace must be a path of TLC's state graph
		if mg, err := modelGraph(g.G); err != nil {
			r.Count("tla_part_unavailable", 1)
		} else {
			used := map[string]bool{}
			for _, tr := range *traces {
				r.Count("impl_traces_checked_against_model", 1)
				if at := mg.accepts(tr, used); at >= 0 {
					// a conformance failure means the model no longer describes the code (the model is wrong, or the
					// protocol changed): it is NOT a property violation; the TLA+ part then proves nothing about this tree
					r.Count("impl_traces_rejected_by_model", 1)
					r.Note(fmt.Sprintf("conformance-failure/G=%d", g.G), fmt.Sprintf("the real ow-sim produced the event trace %v; the TLA+ model cannot follow it at event %d (%s) [graph %s]", tr, at, tr[at], g.String()))
					break
				}
			}
			for e := range used {
				r.State(hashEdge(g.G, e))
			}
		}
	}
	r.Note(fmt.Sprintf("explore/shard%d/", shard)+g.String(), fmt.Sprintf("schedules=%d threads=%d bound=%d complete=%v outcomes=%d horizon_hits=%d", st.Executions, st.MaxThreads, bound, st.Complete, len(st.Outcomes), st.HorizonHits))
	for kind, p := range st.Problems {
		report(kind, p.Detail, p.Choices, p.Events)
	}
	if len(st.Problems) == 0 {
		r.MarkNontrivial()
	}
}

func evs(r vrt.Result) []string {
	out := make([]string, len(r.Events))
	for i, e := range r.Events {
		out[i] = e.String()
	}
	return out
}

func tail(s []string, n int) []string {
	if len(s) > n {
		return s[len(s)-n:]
	}
	return s
}
