package c07

import (
	"fmt"
	"sort"
	"strings"

	"owverif.local/verif/sched"
	"owverif.local/verif/vf"
	"owverif.local/verif/vrt"
)

// family enumerates the bounded family of model graphs.
func family(tier string) []*graph {
	maxNodes, maxLinks := 3, 2
	if tier == "thorough" {
		maxNodes, maxLinks = 4, 3
	}
	var out []*graph
	for G := 1; G <= 3; G++ {
		// count vectors over (type, generation) with entries 0..2 and a node cap; at least one Input node (the
		// simulation length comes from a stored input) in generation 0
		slots := nEnumTypes * G
		var cur [6][maxGen]int
		var rec func(s, used int)
		emit := func() {
			base := graph{G: G, Counts: cur, T: 3, WithOutput: true}
			if base.Counts[0][0] == 0 {
				return
			}
			// every generation non-empty (a generation without nodes does not occur in valid files)
			for gen := 0; gen < G; gen++ {
				n := 0
				for t := 0; t < nEnumTypes; t++ {
					n += base.Counts[t][gen]
				}
				if n == 0 {
					return
				}
			}
			// candidate edges
			var nodes []nodeRef
			for t := 0; t < nEnumTypes; t++ {
				for gen := 0; gen < G; gen++ {
					for k := 0; k < base.Counts[t][gen]; k++ {
						nodes = append(nodes, nodeRef{t, gen, k})
					}
				}
			}
			var edges []glink
			for _, a := range nodes {
				for _, b := range nodes {
					if b.Gen <= a.Gen {
						continue
					}
					for ov := range desc(a.Typ).Outputs {
						for iv := range desc(b.Typ).Inputs {
							edges = append(edges, glink{a, ov, b, iv})
						}
					}
				}
			}
			var sub func(start int, chosen []glink)
			sub = func(start int, chosen []glink) {
				g := base
				g.Links = append([]glink{}, chosen...)
				out = append(out, &g)
				if len(chosen) == maxLinks {
					return
				}
				for e := start; e < len(edges); e++ {
					sub(e, append(chosen, edges[e])) // e, not e+1: the same link twice is "several links into one input"
				}
			}
			sub(0, nil)
		}
		rec = func(s, used int) {
			if s == slots {
				if used > 0 {
					emit()
				}
				return
			}
			t, gen := s/G, s%G
			for c := 0; c <= 2 && used+c <= maxNodes; c++ {
				cur[t][gen] = c
				rec(s+1, used+c)
			}
			cur[t][gen] = 0
		}
		rec(0, 0)
	}
	// variants on a thinned subset: T=1, stored inputs for all types, the output-selection flags, no output file
	n := len(out)
	step := 7
	if tier == "thorough" {
		step = 3
	}
	for i := 0; i < n; i += step {
		b := out[i]
		v := *b
		v.T = 1
		out = append(out, &v)
		v2 := *b
		v2.StoredInputs = true
		out = append(out, &v2)
		for fi, f := range []string{"outputs-for", "no-outputs-for", "inputs-for", "no-inputs-for"} {
			v3 := *b
			v3.Flag = f
			v3.FlagType = (i/step + fi) % 5
			out = append(out, &v3)
			// lists, and names that only resemble a model type's name
			if (i/step)%2 == 0 {
				for form := 1; form <= 5; form++ {
					v6 := v3
					v6.FlagForm = form
					v6.FlagType = (i/step + fi + form) % 5
					out = append(out, &v6)
				}
			}
		}
		v4 := *b
		v4.WithOutput = false
		out = append(out, &v4)
		v5 := *b
		v5.Reversed = true
		out = append(out, &v5)
	}
	return append(out, dimensionedFamily(tier)...)
}

// dimensionedFamily: graphs with nodes of the type whose parameter is a table. Every distribution of 2..3 (thorough 4)
// such nodes over 2..3 generations x two assignments of table lengths to rows (so that the longest table sits in
// different generations, and some generation holds only shorter tables) x {stored inputs, one link from the Input
// node to each later node, one link from each node to a Sum node in the last generation}.
func dimensionedFamily(tier string) []*graph {
	maxNodes := 3
	if tier == "thorough" {
		maxNodes = 4
	}
	var out []*graph
	for G := 2; G <= 3; G++ {
		var cnt [maxGen]int
		var rec func(gen, used int)
		rec = func(gen, used int) {
			if gen < G {
				for c := 0; c <= 2 && used+c <= maxNodes; c++ {
					cnt[gen] = c
					rec(gen+1, used+c)
				}
				cnt[gen] = 0
				return
			}
			if used < 2 {
				return
			}
			for _, lens := range [][]int{{3, 2, 4, 2}, {2, 4, 3, 3}, {4, 2, 2, 3}} {
				base := graph{G: G, T: 3, WithOutput: true, TableLens: lens}
				base.Counts[0][0] = 1
				for gen := 0; gen < G; gen++ {
					base.Counts[dimType][gen] = cnt[gen]
				}
				stored := base
				stored.StoredInputs = true
				out = append(out, &stored)
				rev := stored
				rev.Reversed = true
				out = append(out, &rev)
				// a Sum node in the last generation collecting output 0 of every dimensioned node of earlier generations
				withSum := stored
				withSum.Counts[1][G-1] = 1
				for gen := 0; gen < G-1; gen++ {
					for k := 0; k < cnt[gen]; k++ {
						withSum.Links = append(withSum.Links, glink{nodeRef{dimType, gen, k}, k % 2, nodeRef{1, G - 1, 0}, k % 2})
					}
				}
				if len(withSum.Links) > 0 {
					out = append(out, &withSum)
				}
				// the Input node feeding each dimensioned node of a later generation (no stored inputs for them)
				for gen := 1; gen < G; gen++ {
					for k := 0; k < cnt[gen]; k++ {
						fed := base
						fed.Links = []glink{{nodeRef{0, 0, 0}, 0, nodeRef{dimType, gen, k}, 0}}
						if cnt[0] == 0 { // without stored inputs a dimensioned node in generation 0 would have no series
							out = append(out, &fed)
						}
					}
				}
			}
		}
		rec(0, 0)
	}
	return out
}

// shapes explored under all schedules (part ii)
func scheduleShapes(tier string) []*graph {
	mk := func(G int, counts map[[2]int]int, links []glink) *graph {
		g := &graph{G: G, T: 2, WithOutput: true}
		for k, v := range counts {
			g.Counts[k[0]][k[1]] = v
		}
		g.Links = links
		return g
	}
	in0 := nodeRef{0, 0, 0}
	out := []*graph{
		mk(2, map[[2]int]int{{0, 0}: 1, {3, 1}: 1}, []glink{{in0, 0, nodeRef{3, 1, 0}, 0}}),
		mk(2, map[[2]int]int{{0, 0}: 1, {2, 0}: 1, {1, 1}: 1}, []glink{{in0, 0, nodeRef{1, 1, 0}, 0}, {nodeRef{2, 0, 0}, 1, nodeRef{1, 1, 0}, 1}}),
		mk(3, map[[2]int]int{{0, 0}: 1, {3, 1}: 1, {4, 2}: 1}, []glink{{in0, 0, nodeRef{3, 1, 0}, 0}, {nodeRef{3, 1, 0}, 0, nodeRef{4, 2, 0}, 0}}),
		mk(3, map[[2]int]int{{0, 0}: 1, {0, 1}: 1, {1, 2}: 1}, []glink{{in0, 0, nodeRef{1, 2, 0}, 0}, {nodeRef{0, 1, 0}, 0, nodeRef{1, 2, 0}, 1}}),
		mk(3, map[[2]int]int{{0, 0}: 1, {3, 1}: 1, {3, 2}: 1}, nil),
	}
	if tier == "thorough" {
		out = append(out, mk(4, map[[2]int]int{{0, 0}: 1, {3, 1}: 1, {3, 2}: 1, {3, 3}: 1}, []glink{{in0, 0, nodeRef{3, 1, 0}, 0}}))
	}
	return out
}

type job struct {
	kind   string // functional | schedules
	graphs []*graph
	bound  int
	shard  int
}

type enum struct{ jobs []job }

func build(tier string) *enum {
	e := &enum{}
	fam := family(tier)
	const chunk = 400
	for lo := 0; lo < len(fam); lo += chunk {
		hi := lo + chunk
		if hi > len(fam) {
			hi = len(fam)
		}
		e.jobs = append(e.jobs, job{"functional", fam[lo:hi], 0, 0})
	}
	bound := 2
	if tier == "thorough" {
		bound = 3
		maxExec = 1500000
	}
	for _, g := range scheduleShapes(tier) {
		for sh := 0; sh < nshards; sh++ {
			e.jobs = append(e.jobs, job{"schedules", []*graph{g}, bound, sh})
		}
	}
	return e
}

func (e *enum) N() int64 { return int64(len(e.jobs)) }
func (e *enum) Describe(i int64) interface{} {
	j := e.jobs[i]
	return map[string]interface{}{"part": j.kind, "graphs": len(j.graphs), "first_graph": j.graphs[0].String(), "preemption_bound": j.bound}
}
func (e *enum) CrashSig(i int64, tail string) (string, string) {
	return "C07/crash/" + e.jobs[i].kind, "ow-sim crashed the process"
}
func (e *enum) Run(i int64, r *vf.Rec) {
	j := e.jobs[i]
	for _, g := range j.graphs {
		if j.kind == "functional" {
			runGraph(g, 0, false, r, nil)
		} else {
			runGraphShard(g, j.bound, j.shard, r)
		}
	}
}

func Spec() *vf.Check {
	return &vf.Check{
		ID: "C07", Level: "model_checking", BlockSize: 1, HangSeconds: 7200, Pre: tlaPre,
		Rule: "(i) every model graph of a bounded family (generations 1..3; 0..2 nodes per (type, generation) over the palette Input/Sum/FixedPartition/RunoffCoefficient/Muskingum, node cap 3 (thorough 4); every multiset of at most 2 (3) links between an output and an input of a later generation, so fan-in, fan-out, repeated links, types without nodes and types without stored inputs occur; plus T=1, stored inputs for all types, the four output-selection flags (exact names, lists and look-alike names), no-output-file and reversed /META/models order variants; plus a sub-family with 2..3 (4) nodes of a type with a table-valued parameter (RatingCurvePartition, per-node table lengths 2..4 distributed over 2..3 generations in three ways, stored inputs / fed by the Input node / feeding a Sum node) is run through the real run_simulation under the controlled scheduler's default schedule and every dataset of the output file is compared bit-for-bit with a sequential reference interpreter; " +
			"(ii) for 5 (6) graph shapes every schedule of main / model goroutines / writer goroutines that departs at most 2 (thorough 3) times from the default schedule (run the current thread while it can continue, else the lowest runnable thread; a departure is any other choice, preemptive or not) (scheduling points: spawn, channel operations, io lock operations, every fake-HDF5 call, Sleep as a yield) is executed with monitors M1 (no purge before write and links), M2 (no use after purge), M3 (written exactly once), M4 (all written before return), deadlock, data races (-race) and the final file compared with the reference; (iii) a TLA+ model of the writer hand-off checked by TLC with trace conformance in both directions (see the tla part).",
		Assumptions: []string{"HDF5 is the in-memory stand-in fakehdf5", "link tables are sorted by source generation (as produced by the graph builder)", "the retry loops (token put back, Sleep) are explored up to the step horizon; schedules cut by the horizon are counted and make the exploration non-exhaustive for that shape"},
		Build:       func(tier string) vf.Enumeration { return build(tier) },
		Finish: func(tier string, m *vf.Merged, cov map[string]interface{}) {
			cov["states"] = m.Counters["scheduling_points"] + m.Counters["graphs_run"]
			cov["transitions"] = m.Counters["scheduling_points"] + m.Counters["graphs_run"]
			cov["traces_validated_against_impl"] = m.Counters["schedules"] + m.Counters["graphs_run"]
			cov["race_detector_enabled"] = vrt.RaceEnabled
			cov["tla"] = map[string]interface{}{"tlc_distinct_states": m.Counters["tlc_distinct_states"], "tlc_model_edges": m.Counters["tlc_model_edges"],
				"model_edges_exercised_by_implementation_traces": len(m.States), "implementation_traces_checked_against_model": m.Counters["impl_traces_checked_against_model"]}
			// which model edges no implementation trace went through (model behaviours the explored schedules did not
			// produce: beyond the deviation bound, or slack of the model's over-approximations)
			if m.Counters["tla_part_unavailable"] == 0 {
				byEvent := map[string]int{}
				var examples []string
				total, unc := 0, 0
				for _, G := range []int{2, 3, 4} {
					mg, err := loadGraph(G)
					if err != nil {
						continue
					}
					for s0, ts := range mg.succ {
						for _, t := range ts {
							total++
							if _, ok := m.States[hashEdge(G, s0+">"+t)]; ok {
								continue
							}
							unc++
							byEvent[fmt.Sprintf("G=%d %s", G, mg.event[t])]++
							if len(examples) < 12 {
								examples = append(examples, fmt.Sprintf("G=%d: [%s] --%s--> ...", G, mg.label[s0], mg.event[t]))
							}
						}
					}
				}
				sort.Strings(examples)
				tl := cov["tla"].(map[string]interface{})
				tl["model_edges_in_dumped_graphs"], tl["model_edges_not_exercised"], tl["model_edges_not_exercised_by_event"], tl["model_edges_not_exercised_examples"] = total, unc, byEvent, examples
			}
			if m.Counters["protocol_monitors_and_model_conformance_skipped_probe_functions_renamed"] > 0 {
				cov["exhaustive"] = false
				cov["protocol_monitors"] = "switched off: runGeneration / writeGeneration / PurgeGeneration / GetGeneration do not all exist under these names in this tree, so the event stream the monitors M1-M4 and the TLA+ conformance read would be partial; the verdict rests on output equality, block-written-once, deadlock and race detection"
				fmt.Fprintf(vf.Stdout, "NOTE property=C07 protocol monitors M1-M4 and the model conformance are switched off on this tree (a probed function was renamed); the other parts are unaffected\n")
			}
			if m.Counters["tla_part_unavailable"] > 0 {
				cov["exhaustive"] = false
				cov["tla"].(map[string]interface{})["available"] = false
				fmt.Fprintf(vf.Stdout, "NOTE property=C07 the TLA+ part could not be evaluated (see coverage.notes); the other parts are unaffected\n")
			}
			if m.Counters["impl_traces_rejected_by_model"] > 0 {
				cov["exhaustive"] = false
				cov["tla"].(map[string]interface{})["conformant"] = false
				for k, v := range m.Notes {
					if strings.HasPrefix(k, "conformance-failure") {
						fmt.Fprintf(vf.Stdout, "MODEL-CONFORMANCE-FAILURE property=C07 (not a violation: the TLA+ model no longer matches the code, its verdict does not apply to this tree) %s\n", v)
					}
				}
			} else {
				cov["tla"].(map[string]interface{})["conformant"] = true
			}
			delete(cov, "states")
			cov["states"] = m.Counters["scheduling_points"] + m.Counters["graphs_run"] + m.Counters["tlc_distinct_states"]
			if m.Counters["horizon_hits"] > 0 {
				cov["exhaustive"] = false
			}
		},
	}
}

// ---------------------------------------------------------------------------------------------
// C05, ow-sim part: one goroutine per model type of a generation plus the asynchronous writers.

func c05Shapes(tier string) []*graph {
	mk := func(G int, counts map[[2]int]int, links []glink) *graph {
		g := &graph{G: G, T: 2, WithOutput: true}
		for k, v := range counts {
			g.Counts[k[0]][k[1]] = v
		}
		g.Links = links
		return g
	}
	in0 := nodeRef{0, 0, 0}
	out := []*graph{
		// three model types running concurrently in generation 0, two in generation 1
		mk(2, map[[2]int]int{{0, 0}: 2, {2, 0}: 1, {3, 0}: 1, {1, 1}: 1, {4, 1}: 2},
			[]glink{{in0, 0, nodeRef{1, 1, 0}, 0}, {nodeRef{2, 0, 0}, 1, nodeRef{1, 1, 0}, 1}, {nodeRef{3, 0, 0}, 0, nodeRef{4, 1, 1}, 0}}),
		mk(3, map[[2]int]int{{0, 0}: 1, {3, 0}: 2, {2, 1}: 1, {3, 1}: 1, {1, 2}: 1, {4, 2}: 1},
			[]glink{{in0, 0, nodeRef{2, 1, 0}, 0}, {nodeRef{3, 0, 1}, 0, nodeRef{3, 1, 0}, 0}, {nodeRef{2, 1, 0}, 0, nodeRef{1, 2, 0}, 0}, {nodeRef{3, 1, 0}, 0, nodeRef{4, 2, 0}, 1}}),
	}
	return out
}

const nshards = 8

type enum05 struct {
	shapes []*graph
	bound  int
}

func (e *enum05) N() int64 { return int64(len(e.shapes) * nshards) }
func (e *enum05) Describe(i int64) interface{} {
	return map[string]interface{}{"part": "ow-sim generation", "graph": e.shapes[int(i)/nshards].String(), "deviation_bound": e.bound, "shard": fmt.Sprintf("%d/%d of the first-level subtrees", int(i)%nshards, nshards)}
}
func (e *enum05) CrashSig(i int64, tail string) (string, string) {
	return "C05/ow-sim/crash", "ow-sim crashed the process"
}
func (e *enum05) Run(i int64, r *vf.Rec) {
	g := e.shapes[int(i)/nshards]
	h := g.harness(nil)
	st := (&sched.Explorer{Deviations: true, Bound: e.bound, MaxExec: maxExec, Shard: int(i) % nshards, NShards: nshards}).Explore(h)
	r.Count("schedules", int64(st.Executions))
	r.Count("scheduling_points", int64(st.Points))
	r.Count("horizon_hits", int64(st.HorizonHits))
	r.Note(fmt.Sprintf("ow-sim/shard%d/", int(i)%nshards)+g.String(), fmt.Sprintf("schedules=%d threads=%d deviation_bound=%d complete=%v outcomes=%d races=%d", st.Executions, st.MaxThreads, e.bound, st.Complete, len(st.Outcomes), st.Races))
	if len(st.Outcomes) > 1 {
		r.Failf("C05/ow-sim/results-depend-on-schedule", map[string]interface{}{"graph": g.String(), "outcomes": len(st.Outcomes)}, "ow-sim: %d distinct output files over %d schedules [graph %s]", len(st.Outcomes), st.Executions, g.String())
	}
	for kind, p := range st.Problems {
		r.Failf("C05/ow-sim/"+kind, map[string]interface{}{"graph": g.String(), "schedule": p.Choices, "detail": p.Detail, "events": tail(p.Events, 60)}, "ow-sim: %s in %d of %d schedules: %v [graph %s]", kind, p.Count, st.Executions, p.Detail, g.String())
	}
	if len(st.Problems) == 0 {
		r.MarkNontrivial()
	}
}

// SpecC05 is the ow-sim half of property C05 (the Run half lives in checks/c05).
func SpecC05() *vf.Check {
	return &vf.Check{
		ID: "C05", Level: "model_checking", BlockSize: 1, HangSeconds: 7200,
		Rule:        "ow-sim part: model graphs with 2-3 model types per generation (several nodes per type, links, 2-3 generations) run through the real run_simulation under the controlled scheduler, built with -race; every schedule that departs at most 2 (thorough 3) times from the default schedule: data races reported by the race detector, deadlocks, and every schedule's output file identical to the sequential reference",
		Assumptions: []string{"see the Run part"},
		Build: func(tier string) vf.Enumeration {
			b := 2
			if tier == "thorough" {
				b = 3
				maxExec = 1500000
			}
			return &enum05{c05Shapes(tier), b}
		},
		Finish: func(tier string, m *vf.Merged, cov map[string]interface{}) {
			cov["states"] = m.Counters["scheduling_points"]
			cov["transitions"] = m.Counters["scheduling_points"]
			cov["traces_validated_against_impl"] = m.Counters["schedules"]
			cov["race_detector_enabled"] = vrt.RaceEnabled
		},
	}
}
