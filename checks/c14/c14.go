// Package c14: model results are a pure, causal function of parameters, states and inputs.
// seqx-style history enumeration: every history of length <= 3 whose last run is the probe, preceded by
// runs on the same object (same / other configuration), on a fresh object of the same model, or on a
// model of another package; the probe's result must be bit-identical to the same probe run FIRST in a
// FRESH PROCESS on a fresh object. Causality: every truncation point, every replacement tail.
package c14

import (
	"context"
	"encoding/json"
	"fmt"
	"math"
	"os"
	"os/exec"
	"path/filepath"
	"strconv"
	"strings"
	"time"

	"github.com/flowmatters/openwater-core/sim"
	"owverif.local/verif/mrun"
	"owverif.local/verif/tables"
	"owverif.local/verif/vf"
)

const T = 5

type probe struct {
	tbl tables.Table
	cfg int
}

// the two configurations of a model use parameter vectors with the same state layout (so that a value cached by
// shape rather than by value is exercised): GR4J X4 = 1 and 0.7 (n1 = 1, n2 = 2), Lag a single lag
func configs(t tables.Table) (int, int) {
	switch t.Model {
	case "GR4J":
		return 1, 5
	case "Lag":
		return 2, 2
	}
	return 0, len(t.Params) - 1
}

func (p probe) params() []float64 {
	a, b := configs(p.tbl)
	if p.cfg == 0 {
		return p.tbl.Params[a]
	}
	return p.tbl.Params[b]
}

func (p probe) word() []int {
	w := make([]int, T)
	for t := range w {
		w[t] = (1 + t*2 + p.cfg*3) % len(p.tbl.Letters)
	}
	return w
}

func inputsFor(t tables.Table, seq []int) [][]float64 {
	nin := len(t.Letters[0])
	in := make([][]float64, nin)
	for k := range in {
		in[k] = make([]float64, len(seq))
		for i, l := range seq {
			in[k][i] = t.Letters[l][k]
		}
	}
	return in
}

func probes() []probe {
	var out []probe
	for _, t := range tables.All() {
		out = append(out, probe{t, 0}, probe{t, 1})
	}
	return out
}

// runOn applies the probe's configuration to obj and runs it (one cell).
func runOn(obj sim.TimeSteppingModel, p probe) mrun.Result {
	mrun.Configure(obj, mrun.Col(p.params()))
	return mrun.RunOn(obj, inputsFor(p.tbl, p.word()), T, nil)
}

func bits(r mrun.Result) []uint64 {
	var out []uint64
	for _, o := range r.Out {
		for _, v := range o {
			out = append(out, math.Float64bits(v))
		}
	}
	out = append(out, 0xdeadbeef)
	for _, v := range r.States {
		out = append(out, math.Float64bits(v))
	}
	return out
}

func eqBits(a, b []uint64) bool {
	if len(a) != len(b) {
		return false
	}
	for i := range a {
		if a[i] != b[i] {
			return false
		}
	}
	return true
}

// history operations
var ops = []string{"same-object-same-config", "same-object-other-config", "fresh-object-same-model",
	"other:ClimateVariables", "other:FixedPartition", "other:DateGenerator", "other:USLEFineSedimentGeneration", "other:StorageRouting", "other:GR4J", "other:Storage"}

// longCase: a two-letter periodic series of longLen steps against its own truncations (anything budgeted or averaged
// over the whole series shows up as a dependence of early outputs on the series length)
type longCase struct {
	p    probe
	a, b int
}

const longLen = 2000

func longCases() []longCase {
	var out []longCase
	for _, p := range probes() {
		if p.cfg != 0 {
			continue
		}
		n := len(p.tbl.Letters)
		if n > 5 {
			n = 5
		}
		for a := 0; a < n; a++ {
			for b := 0; b < n; b++ {
				out = append(out, longCase{p, a, b})
			}
		}
	}
	return out
}

func runLong(lc longCase, r *vf.Rec) {
	p := lc.p
	long := make([]int, longLen)
	for u := range long {
		long[u] = lc.a
		if u%2 == 1 {
			long[u] = lc.b
		}
	}
	run := func(n int) mrun.Result {
		o := sim.Catalog[p.tbl.Model]()
		mrun.Configure(o, mrun.Col(p.params()))
		r.Count("causality_runs", 1)
		return mrun.RunOn(o, inputsFor(p.tbl, long[:n]), n, nil)
	}
	full := run(longLen)
	for _, n := range []int{5, 120} {
		short := run(n)
		for k := range short.Out {
			for u := 0; u < n; u++ {
				if math.Float64bits(short.Out[k][u]) != math.Float64bits(full.Out[k][u]) {
					r.Failf(fmt.Sprintf("C14/%s/output-depends-on-series-length", p.tbl.Model), map[string]interface{}{"step": u, "truncated_after": n, "full_length": longLen, "truncated_run": short.Out[k][u], "full_run": full.Out[k][u], "letters": []int{lc.a, lc.b}},
						"%s: output %d at step %d is %v in a %d-step run and %v in the %d-step run of the same series", p.tbl.Model, k, u, short.Out[k][u], n, full.Out[k][u], longLen)
					return
				}
			}
		}
	}
	r.Count("long_series_checked", 1)
	r.MarkNontrivial()
}

type enum struct {
	long     []longCase
	probes   []probe
	hist     [][]int // op index sequences (length 0..2)
	baseline map[string][]uint64
}

func baselinePath() string { return filepath.Join(vf.Root, ".build", "c14-baseline.json") }

func build(tier string) *enum {
	e := &enum{probes: probes(), long: longCases()}
	e.hist = append(e.hist, nil)
	for a := range ops {
		e.hist = append(e.hist, []int{a})
	}
	for a := range ops {
		for b := range ops {
			e.hist = append(e.hist, []int{a, b})
		}
	}
	if tier == "thorough" || tier == "quick" {
		for a := range ops {
			for b := range ops {
				for c := range ops {
					e.hist = append(e.hist, []int{a, b, c})
				}
			}
		}
	}
	if b, err := os.ReadFile(baselinePath()); err == nil {
		json.Unmarshal(b, &e.baseline)
	}
	return e
}

func (e *enum) N() int64 { return int64(len(e.probes)*len(e.hist) + len(e.long)) }
func (e *enum) decode(i int64) (probe, []int) {
	return e.probes[int(i)/len(e.hist)], e.hist[int(i)%len(e.hist)]
}
func key(p probe) string { return fmt.Sprintf("%s/%d", p.tbl.Model, p.cfg) }
func zeroKey(p probe, k int) string {
	return fmt.Sprintf("zeroed:%s/%d/%d", p.tbl.Model, p.cfg, k)
}
func (e *enum) Describe(i int64) interface{} {
	if j := i - int64(len(e.probes)*len(e.hist)); j >= 0 {
		lc := e.long[j]
		return map[string]interface{}{"probe_model": lc.p.tbl.Model, "params": lc.p.params(), "periodic_series_letters": []int{lc.a, lc.b}, "length": longLen}
	}
	p, h := e.decode(i)
	hs := []string{}
	for _, o := range h {
		hs = append(hs, ops[o])
	}
	return map[string]interface{}{"probe_model": p.tbl.Model, "probe_config": p.cfg, "params": p.params(), "input_word": p.word(), "history_before_probe": hs}
}
func (e *enum) CrashSig(i int64, tail string) (string, string) {
	if j := i - int64(len(e.probes)*len(e.hist)); j >= 0 {
		return "C14/" + e.long[j].p.tbl.Model + "/crash/long-series", e.long[j].p.tbl.Model + ": a long periodic series crashed the process"
	}
	p, _ := e.decode(i)
	return "C14/" + p.tbl.Model + "/crash", p.tbl.Model + ": a history of runs crashed the process"
}

func (e *enum) Run(i int64, r *vf.Rec) {
	if j := i - int64(len(e.probes)*len(e.hist)); j >= 0 {
		runLong(e.long[j], r)
		return
	}
	p, h := e.decode(i)
	base, ok := e.baseline[key(p)]
	if !ok {
		r.Failf("C14/harness/no-baseline", nil, "no fresh-process baseline for %s", key(p))
		return
	}
	obj := sim.Catalog[p.tbl.Model]()
	other := probe{p.tbl, 1 - p.cfg}
	for _, o := range h {
		switch ops[o] {
		case "same-object-same-config":
			runOn(obj, p)
		case "same-object-other-config":
			runOn(obj, other)
		case "fresh-object-same-model":
			runOn(sim.Catalog[p.tbl.Model](), other)
			runOn(sim.Catalog[p.tbl.Model](), p)
		default:
			name := ops[o][len("other:"):]
			t := tables.GetAny(name)
			runOn(sim.Catalog[name](), probe{t, 0})
			runOn(sim.Catalog[name](), probe{t, 1})
		}
	}
	got := runOn(obj, p)
	if !eqBits(bits(got), base) {
		first := "none"
		if len(h) > 0 {
			first = ops[h[len(h)-1]]
			if len(first) > 6 && first[:6] == "other:" {
				first = "other-model"
			}
		}
		r.Failf(fmt.Sprintf("C14/%s/result-depends-on-history/after-%s", p.tbl.Model, first), map[string]interface{}{"outputs": got.Out, "final_states": got.States},
			"%s config %d: result after history %v differs from the same run done first in a fresh process", p.tbl.Model, p.cfg, e.Describe(i).(map[string]interface{})["history_before_probe"])
		return
	}
	r.Count("histories_checked", 1)
	if len(h) == 0 {
		if !causality(p, p.params(), "", r) {
			return
		}
		if p.cfg == 0 {
			// parameter regions off the table: each parameter in turn set to zero (fall-back / default branches)
			for k := range p.params() {
				if p.params()[k] == 0 {
					continue
				}
				if _, ok := e.baseline[zeroKey(p, k)]; !ok {
					r.Count("zeroed_parameter_variants_outside_the_models_domain", 1) // crashed or did not finish in a fresh process
					continue
				}
				v := append([]float64{}, p.params()...)
				v[k] = 0
				ok, panicked := true, false
				func() {
					defer func() {
						if recover() != nil {
							panicked = true
						}
					}()
					ok = causality(p, v, fmt.Sprintf("/parameter-%d-zeroed", k), r)
				}()
				if panicked {
					r.Count("zeroed_parameter_variants_skipped_model_panics", 1)
					continue
				}
				r.Count("zeroed_parameter_variants", 1)
				if !ok {
					return
				}
			}
		}
	}
	r.MarkNontrivial()
}

// causality: every truncation point, every replacement tail, from two initial states (see below); false = failed.
func causality(p probe, params []float64, variant string, r *vf.Rec) bool {
	other := probe{p.tbl, 1 - p.cfg}
	// causality: every truncation point, every replacement tail (a constant tail of every letter), from the
	// model-initialised state and from a warmed-up (non-zero) state, for the probe word's own prefixes and for
	// every constant-letter prefix (which includes quiet spells: zero load with and without flow)
	wobj := sim.Catalog[p.tbl.Model]()
	mrun.Configure(wobj, mrun.Col(params))
	warm := mrun.RunOn(wobj, inputsFor(p.tbl, other.word()), T, nil).States // same parameters (state layout), the other input word
	for _, init := range [][]float64{nil, warm} {
		for t := 1; t < T; t++ {
			prefixes := [][]int{p.word()[:t]}
			for l := range p.tbl.Letters {
				c := make([]int, t)
				for u := range c {
					c[u] = l
				}
				prefixes = append(prefixes, c)
			}
			for pk, prefix := range prefixes {
				run := func(seq []int) mrun.Result {
					o := sim.Catalog[p.tbl.Model]()
					mrun.Configure(o, mrun.Col(params))
					r.Count("causality_runs", 1)
					return mrun.RunOn(o, inputsFor(p.tbl, seq), len(seq), init)
				}
				ref := run(prefix)
				for l := range p.tbl.Letters {
					seq := append([]int{}, prefix...)
					for u := t; u < T; u++ {
						seq = append(seq, l)
					}
					res := run(seq)
					for k := range res.Out {
						for u := 0; u < t; u++ {
							if math.Float64bits(res.Out[k][u]) != math.Float64bits(ref.Out[k][u]) {
								kind := map[bool]string{true: "probe-word-prefix", false: "constant-prefix"}[pk == 0] + map[bool]string{true: "/model-initialised-state", false: "/warmed-up-state"}[init == nil]
								r.Failf(fmt.Sprintf("C14/%s/output-depends-on-later-input/%s%s", p.tbl.Model, kind, variant), map[string]interface{}{"t": t, "step": u, "prefix": prefix, "sequence": seq, "init_states": init, "outputs_truncated_run": ref.Out, "outputs": res.Out, "params": params},
									"%s: output at step %d differs between the run truncated after step %d and the run continued with letter %d", p.tbl.Model, u, t, l)
								return false
							}
						}
					}
				}
			}
		}
	}
	return true
}

// sub-command: --probe k  prints the result bits of probe k run first in this (fresh) process.
func sub(args []string) bool {
	if len(args) >= 3 && args[0] == "--zero-screen" {
		// can the probe's configuration with parameter j set to zero be run at all? (exit 0 = yes)
		k, _ := strconv.Atoi(args[1])
		j, _ := strconv.Atoi(args[2])
		p := probes()[k]
		v := append([]float64{}, p.params()...)
		v[j] = 0
		causality(p, v, "", vf.NewRec())
		fmt.Fprintln(vf.Stdout, "ok")
		return true
	}
	if len(args) >= 2 && args[0] == "--probe" {
		k, _ := strconv.Atoi(args[1])
		p := probes()[k]
		res := runOn(sim.Catalog[p.tbl.Model](), p)
		b, _ := json.Marshal(bits(res))
		fmt.Fprintln(vf.Stdout, string(b))
		return true
	}
	return false
}

func pre(tier string, r *vf.Rec) {
	self, _ := os.Executable()
	out := map[string][]uint64{}
	for k, p := range probes() {
		cmd := exec.Command(self, "C14", "--probe", strconv.Itoa(k))
		b, err := cmd.Output()
		if err != nil {
			r.Failf("C14/"+p.tbl.Model+"/crash/fresh-process-baseline", nil, "%s: probe crashed in a fresh process: %v", key(p), err)
			continue
		}
		var v []uint64
		if json.Unmarshal(b, &v) != nil {
			r.Failf("C14/harness/bad-baseline", nil, "unreadable baseline for %s", key(p))
			continue
		}
		out[key(p)] = v
	}
	// each baseline twice: a fresh process must be deterministic
	for k, p := range probes() {
		cmd := exec.Command(self, "C14", "--probe", strconv.Itoa(k))
		b, err := cmd.Output()
		var v []uint64
		if err == nil && json.Unmarshal(b, &v) == nil && !eqBits(v, out[key(p)]) {
			r.Failf("C14/"+p.tbl.Model+"/fresh-process-runs-differ", nil, "%s: two fresh processes gave different results", key(p))
		}
	}
	// screen the zeroed-parameter variants used by the causality part: a variant is used only if it runs to completion
	// in a fresh process (a zero can be outside a model's domain: table sizes, month numbers, divisors)
	type zjob struct {
		k, j int
		key  string
	}
	var zj []zjob
	for k, p := range probes() {
		if p.cfg != 0 {
			continue
		}
		for j, v := range p.params() {
			if v != 0 {
				zj = append(zj, zjob{k, j, zeroKey(p, j)})
			}
		}
	}
	okc := make(chan string, len(zj))
	sem := make(chan bool, 12)
	for _, z := range zj {
		z := z
		sem <- true
		go func() {
			defer func() { <-sem }()
			ctx, cancel := context.WithTimeout(context.Background(), 60*time.Second)
			defer cancel()
			b, err := exec.CommandContext(ctx, self, "C14", "--zero-screen", strconv.Itoa(z.k), strconv.Itoa(z.j)).Output()
			if err == nil && strings.HasSuffix(strings.TrimSpace(string(b)), "ok") {
				okc <- z.key
			} else {
				okc <- ""
			}
		}()
	}
	usable := 0
	for range zj {
		if k := <-okc; k != "" {
			out[k] = []uint64{1}
			usable++
		}
	}
	r.Count("zeroed_parameter_variants_screened", int64(len(zj)))
	r.Count("zeroed_parameter_variants_usable", int64(usable))
	r.Count("fresh_process_baselines", int64(2*(len(out)-usable)))
	os.MkdirAll(filepath.Join(vf.Root, ".build"), 0755)
	b, _ := json.Marshal(out)
	os.WriteFile(baselinePath(), b, 0644)
}

func Spec() *vf.Check {
	return &vf.Check{
		ID: "C14", Level: "model_checking", BlockSize: 64, Sub: sub, Pre: pre,
		Rule: "explicit enumeration of run histories: for each of 82 probes (41 models x 2 configurations, T=5) every history of 0..3 earlier runs over a 10-operation alphabet {same object same config, same object other config (ApplyParameters again), fresh object of the same model, a model of each of the 7 packages} followed by the probe; oracle = the probe run first, in a fresh process, on a fresh object (each baseline computed in two separate processes). " +
			"Causality for every probe: from the model-initialised and from a warmed-up state, for the probe word's prefixes and for every constant-letter prefix, every truncation point t in 1..4 and every replacement of the inputs after t by a constant tail of every letter; the same with each non-zero parameter in turn set to zero (variants that run at all in a fresh process); and, per model, every two-letter periodic series (first 5 letters) of 2000 steps against its truncations after 5 and 120 steps. distinct_nontrivial = histories whose probe matched the baseline.",
		Assumptions: []string{"history depth 3 before the probe; one probe word per configuration", "package-level state that only a third kind of earlier run could set is not reached"},
		Build:       func(tier string) vf.Enumeration { return build(tier) },
		Finish: func(tier string, m *vf.Merged, cov map[string]interface{}) {
			e := build(tier)
			cov["states"] = len(e.hist) * len(e.probes)               // distinct histories (a state = the history reaching it)
			cov["transitions"] = int(m.Counters["histories_checked"]) // probe transitions taken from those states
			cov["traces_validated_against_impl"] = m.Evals
		},
	}
}
