// Package c17: the JSON single-model runner is equivalent to a direct run and always answers.
package c17

import (
	"bytes"
	"encoding/json"
	"fmt"
	"io"
	"math"
	"os"
	"os/exec"
	"path/filepath"
	"strconv"
	"strings"

	"github.com/flowmatters/openwater-core/data"
	owjs "github.com/flowmatters/openwater-core/io/json"
	"github.com/flowmatters/openwater-core/sim"
	"owverif.local/verif/mrun"
	"owverif.local/verif/tables"
	"owverif.local/verif/vf"
)

// ---------------------------------------------------------------------------------------------
// structured requests

type reqCase struct {
	model  string
	pShape string // none | all | only:<i> | all+unknown | reversed
	iShape string // all | missing:<i> | all-missing | longer:<i> | shorter:<i> | extra | reversed
	T      int
	split  bool
}

type nv struct {
	Name  string
	Value float64
}
type ni struct {
	Name   string
	Values []float64
}
type request struct {
	Name       string
	Inputs     []ni
	Parameters []nv
}

func paramShapes(desc sim.ModelDescription) []string {
	out := []string{"none", "all", "all+unknown", "reversed"}
	if len(desc.Parameters) > 0 {
		out = append(out, "case-variant") // the first parameter only under a name that differs in case: not that parameter
	}
	for i := range desc.Parameters {
		out = append(out, "only:"+strconv.Itoa(i))
	}
	return out
}

func inputShapes(desc sim.ModelDescription) []string {
	// extra-first / extra-longer: a series that is no input of the model, of another length, first / last in the list;
	// extreme: the largest finite values and the smallest positive one in every series (finite values stay numbers)
	out := []string{"all", "all-missing", "extra", "reversed", "extra-first", "extra-longer", "extreme"}
	for i := range desc.Inputs {
		out = append(out, "missing:"+strconv.Itoa(i), "longer:"+strconv.Itoa(i), "shorter:"+strconv.Itoa(i))
		if len(desc.Inputs) > 1 {
			out = append(out, "empty:"+strconv.Itoa(i)) // an explicit [] next to longer series: unequal lengths, not a missing input
		}
	}
	return out
}

func hasDims(desc sim.ModelDescription) bool { return len(desc.Dimensions) > 0 }

// paramsFor returns the request's parameter list and the effective parameter vector.
func paramsFor(t tables.Table, desc sim.ModelDescription, shape string) ([]nv, []float64, []string) {
	vec := make([]float64, len(desc.Parameters))
	given := make([]bool, len(desc.Parameters))
	src := t.Params[0]
	var list []nv
	add := func(i int) {
		v := desc.Parameters[i].Default
		if i < len(src) && !hasDims(desc) {
			v = src[i]
		}
		list = append(list, nv{desc.Parameters[i].Name, v})
		vec[i], given[i] = v, true
	}
	switch {
	case shape == "none":
	case shape == "all" || shape == "all+unknown":
		for i := range desc.Parameters {
			add(i)
		}
		if shape == "all+unknown" {
			list = append(list, nv{"noSuchParameter", 42})
		}
	case shape == "reversed":
		for i := len(desc.Parameters) - 1; i >= 0; i-- {
			add(i)
		}
	case shape == "case-variant":
		name := desc.Parameters[0].Name
		swapped := strings.ToUpper(name)
		if swapped == name {
			swapped = strings.ToLower(name)
		}
		v := desc.Parameters[0].Default + 1
		if len(src) > 0 && !hasDims(desc) {
			v = src[0] + 1
		}
		list = append(list, nv{swapped, v})
		for i := 1; i < len(desc.Parameters); i++ {
			add(i)
		}
	default:
		i, _ := strconv.Atoi(shape[len("only:"):])
		add(i)
	}
	var defaulted []string
	for i, g := range given {
		if !g {
			vec[i] = desc.Parameters[i].Default
			defaulted = append(defaulted, desc.Parameters[i].Name)
		}
	}
	return list, vec, defaulted
}

func series(t tables.Table, input, n int) []float64 {
	out := make([]float64, n)
	for k := range out {
		l := (1 + 2*k + input) % len(t.Letters)
		out[k] = t.Letters[l][input]
	}
	return out
}

// inputsFor returns the request's input list, the effective [input][t] matrix (nil when the request is an
// error case), the missing input names, and whether the request is an error case.
func inputsFor(t tables.Table, desc sim.ModelDescription, shape string, T int) ([]ni, [][]float64, []string, bool) {
	n := len(desc.Inputs)
	var list []ni
	eff := make([][]float64, n)
	var missing []string
	errCase := false
	kind, idx := shape, -1
	if p := strings.IndexByte(shape, ':'); p >= 0 {
		kind = shape[:p]
		idx, _ = strconv.Atoi(shape[p+1:])
	}
	order := make([]int, n)
	for i := range order {
		order[i] = i
		if kind == "reversed" {
			order[i] = n - 1 - i
		}
	}
	for _, i := range order {
		L := T
		switch {
		case kind == "all-missing", kind == "missing" && i == idx:
			missing = append(missing, desc.Inputs[i])
			eff[i] = make([]float64, T)
			continue
		case kind == "longer" && i == idx:
			L = T + 2
		case kind == "shorter" && i == idx:
			L = T - 1
		case kind == "empty" && i == idx:
			L = 0
		}
		s := series(t, i, L)
		if kind == "extreme" {
			for k, v := range []float64{math.MaxFloat64, -math.MaxFloat64, math.SmallestNonzeroFloat64} {
				if k < len(s) {
					s[(k+i)%len(s)] = v
				}
			}
		}
		list = append(list, ni{desc.Inputs[i], s})
		eff[i] = s
	}
	if kind == "extra" {
		list = append(list, ni{"noSuchInput", []float64{1, 2, 3}})
	}
	if kind == "extra-longer" {
		list = append(list, ni{"noSuchInput", make([]float64, T+2)})
	}
	if kind == "extra-first" {
		list = append([]ni{{"noSuchInput", make([]float64, T+2)}}, list...)
	}
	if len(list) == 0 || (strings.HasPrefix(kind, "extra") && len(list) == 1 && n == 0) {
		errCase = true // no input series at all
	}
	if kind == "all-missing" {
		errCase = true
	}
	if (kind == "longer" || kind == "shorter" || kind == "empty") && n > 1 {
		errCase = true // unequal lengths
	}
	if (kind == "longer" || kind == "shorter") && n == 1 {
		// a single input of another length is simply another valid request
		for i := range eff {
			if len(eff[i]) != T {
				T = len(eff[i])
			}
		}
	}
	_ = T
	return list, eff, missing, errCase
}

func decodeOne(b []byte) (map[string]interface{}, string) {
	dec := json.NewDecoder(bytes.NewReader(b))
	var v map[string]interface{}
	if err := dec.Decode(&v); err != nil {
		return nil, "output is not a JSON document: " + err.Error()
	}
	var extra interface{}
	if err := dec.Decode(&extra); err != io.EOF {
		return nil, "more than one JSON value written"
	}
	return v, ""
}

func num(v interface{}) (float64, bool) {
	switch x := v.(type) {
	case float64:
		return x, true
	case string:
		switch x {
		case "NaN":
			return math.NaN(), true
		case "+Inf":
			return math.Inf(1), true
		case "-Inf":
			return math.Inf(-1), true
		}
	}
	return 0, false
}

func sameNum(got interface{}, want float64) bool {
	g, ok := num(got)
	if !ok {
		return false
	}
	if math.IsNaN(want) {
		_, isStr := got.(string)
		return isStr && math.IsNaN(g)
	}
	if math.IsInf(want, 0) {
		_, isStr := got.(string)
		return isStr && g == want
	}
	_, isNum := got.(float64)
	return isNum && g == want
}

func logs(v map[string]interface{}) []string {
	var out []string
	if l, ok := v["Log"].([]interface{}); ok {
		for _, x := range l {
			if s, ok := x.(string); ok {
				out = append(out, s)
			}
		}
	}
	return out
}

func callRunner(req []byte, split bool) (out []byte, panicked interface{}) {
	var w bytes.Buffer
	func() {
		defer func() { panicked = recover() }()
		sim.RunSingleModelJSON(bytes.NewReader(req), &w, split)
	}()
	return w.Bytes(), panicked
}

func runReq(c reqCase, directOK map[string]bool, r *vf.Rec) {
	t := tables.GetAny(c.model)
	desc := sim.Catalog[c.model]().Description()
	plist, pvec, defaulted := paramsFor(t, desc, c.pShape)
	ilist, eff, missing, errCase := inputsFor(t, desc, c.iShape, c.T)
	if c.iShape == "extreme" && !directOK[c.model+"/"+c.pShape+"/extreme"] {
		r.Count("structured_requests_skipped_direct_run_crashes_on_extreme_values", 1)
		return
	}
	if !directOK[c.model+"/"+c.pShape] {
		r.Count("skipped_direct_run_crashes_for_these_parameters", 1)
		return
	}
	req, _ := json.Marshal(request{Name: c.model, Inputs: ilist, Parameters: plist})
	d := map[string]interface{}{"request": string(req), "splitOutputs": c.split}
	out, p := callRunner(req, c.split)
	cls := "valid-request"
	if errCase {
		cls = "inputs-" + strings.SplitN(c.iShape, ":", 2)[0]
	}
	if p != nil {
		d["panic"] = fmt.Sprint(p)
		r.Failf("C17/runner-panics/"+cls, d, "%s (%s, %s): RunSingleModelJSON panicked: %v", c.model, c.pShape, c.iShape, p)
		return
	}
	v, bad := decodeOne(out)
	if bad != "" {
		d["output"] = string(out)
		r.Failf("C17/not-exactly-one-json-document/"+cls, d, "%s (%s, %s): %s", c.model, c.pShape, c.iShape, bad)
		return
	}
	lg := logs(v)
	if errCase {
		// must describe the problem and must not pretend to have results
		nonEmpty := 0
		for _, s := range lg {
			if strings.TrimSpace(s) != "" {
				nonEmpty++
			}
		}
		rr, _ := v["RunResults"].(map[string]interface{})
		if nonEmpty == 0 {
			r.Failf("C17/error-case-without-description/"+cls, d, "%s (%s): the answer has no log line describing the problem", c.model, c.iShape)
			return
		}
		if rr != nil && (rr["Outputs"] != nil || rr["States"] != nil) {
			d["output"] = string(out)
			r.Failf("C17/error-case-returns-results/"+cls, d, "%s (%s): inputs are missing/unequal but results were returned", c.model, c.iShape)
			return
		}
		r.Count("error_requests_answered", 1)
		r.MarkNontrivial()
		return
	}
	// effective series length
	T := 0
	for i := range eff {
		if len(eff[i]) > T {
			T = len(eff[i])
		}
	}
	for i := range eff {
		if len(eff[i]) < T {
			eff[i] = make([]float64, T) // (only the missing ones, which are zero)
		}
	}
	want := mrun.RunCell(c.model, pvec, eff, T, nil)
	for _, name := range defaulted {
		found := false
		for _, s := range lg {
			if strings.HasPrefix(s, name+" not found, using default=") {
				found = true
			}
		}
		if !found {
			r.Failf("C17/defaulted-parameter-not-reported", d, "%s: parameter %s was defaulted but the log does not say so (log %q)", c.model, name, lg)
			return
		}
	}
	for _, name := range missing {
		found := false
		for _, s := range lg {
			if s == "Missing input: "+name+", using 0" {
				found = true
			}
		}
		if !found {
			r.Failf("C17/missing-input-not-reported", d, "%s: input %s was missing but the log does not say so (log %q)", c.model, name, lg)
			return
		}
	}
	rr, _ := v["RunResults"].(map[string]interface{})
	if rr == nil {
		r.Failf("C17/no-results", d, "%s: no RunResults in the answer", c.model)
		return
	}
	bad = compareResults(desc, rr, want, c.split)
	if bad != "" {
		d["output"] = string(out)
		d["want_outputs"], d["want_states"] = vf.Sanitize(want.Out), vf.Sanitize(want.States)
		r.Failf("C17/results-differ-from-direct-run/"+map[bool]string{true: "split", false: "nested"}[c.split], d, "%s (%s, %s): %s", c.model, c.pShape, c.iShape, bad)
		return
	}
	r.MarkNontrivial()
}

func compareResults(desc sim.ModelDescription, rr map[string]interface{}, want mrun.Result, split bool) string {
	T := 0
	if len(want.Out) > 0 {
		T = len(want.Out[0])
	}
	if split {
		om, ok := rr["Outputs"].(map[string]interface{})
		if !ok || len(om) != len(desc.Outputs) {
			return "Outputs is not a map with one entry per output"
		}
		for o, name := range desc.Outputs {
			l, ok := om[name].([]interface{})
			if !ok || len(l) != T {
				return fmt.Sprintf("output %s is not a list of %d values", name, T)
			}
			for t := 0; t < T; t++ {
				if !sameNum(l[t], want.Out[o][t]) {
					return fmt.Sprintf("output %s[%d] = %v, direct run gives %v", name, t, l[t], want.Out[o][t])
				}
			}
		}
		sm, ok := rr["States"].(map[string]interface{})
		if !ok {
			return "States is not a map"
		}
		for i, name := range desc.States {
			if i < len(want.States) && !sameNum(sm[name], want.States[i]) {
				return fmt.Sprintf("state %s = %v, direct run gives %v", name, sm[name], want.States[i])
			}
		}
		return ""
	}
	ol, ok := rr["Outputs"].([]interface{})
	if !ok || len(ol) != len(desc.Outputs) {
		return fmt.Sprintf("Outputs is not a list of %d series", len(desc.Outputs))
	}
	for o := range desc.Outputs {
		l, ok := ol[o].([]interface{})
		if !ok || len(l) != T {
			return fmt.Sprintf("Outputs[%d] is not a list of %d values", o, T)
		}
		for t := 0; t < T; t++ {
			if !sameNum(l[t], want.Out[o][t]) {
				return fmt.Sprintf("Outputs[%d][%d] = %v, direct run gives %v", o, t, l[t], want.Out[o][t])
			}
		}
	}
	sl, ok := rr["States"].([]interface{})
	if !ok || len(sl) != len(want.States) {
		return fmt.Sprintf("States is not a list of %d values", len(want.States))
	}
	for i := range want.States {
		if !sameNum(sl[i], want.States[i]) {
			return fmt.Sprintf("States[%d] = %v, direct run gives %v", i, sl[i], want.States[i])
		}
	}
	return ""
}

// ---------------------------------------------------------------------------------------------
// byte strings

var alphabet = []byte("{}[]\":,1-ena\\ ")

var validRequests = []string{
	`{"Name":"RunoffCoefficient","Inputs":[{"Name":"rainfall","Values":[1,2.5,0]}],"Parameters":[{"Name":"coeff","Value":0.35}]}`,
	`{"Name":"Sum","Inputs":[{"Name":"i1","Values":[1,2]},{"Name":"i2","Values":[3,4]}]}`,
	`{"Name":"EmcDwc","Inputs":[{"Name":"quickflow","Values":[12,0,3]},{"Name":"baseflow","Values":[1,2,3]}],"Parameters":[{"Name":"EMC","Value":350},{"Name":"DWC","Value":1.7}]}`,
}

func byteStrings() [][]byte {
	var out [][]byte
	out = append(out, []byte{})
	k := len(alphabet)
	for n := 1; n <= 3; n++ {
		total := int(vf.Pow(k, n))
		for i := 0; i < total; i++ {
			w := vf.Word(int64(i), k, n)
			b := make([]byte, n)
			for j := range w {
				b[j] = alphabet[w[j]]
			}
			out = append(out, b)
		}
	}
	for _, v := range validRequests {
		out = append(out, []byte(v))
		for pos := 0; pos < len(v); pos++ {
			out = append(out, []byte(v[:pos]+v[pos+1:])) // deletion
			for _, a := range alphabet {
				if a != v[pos] {
					b := []byte(v)
					b[pos] = a
					out = append(out, b)
				}
			}
		}
		// truncations
		for pos := 0; pos < len(v); pos++ {
			out = append(out, []byte(v[:pos]))
		}
	}
	out = append(out, []byte(`{"Name":"NoSuchModel"}`), []byte(`{"Name":""}`), []byte(`{}`), []byte(`null`), []byte(`[]`), []byte(`{"Name":"Sum"}`), []byte(`{"Name":7}`), []byte("{\"Name\":\"Sum\"}{\"Name\":\"Sum\"}"))
	return out
}

func runBytes(b []byte, r *vf.Rec) {
	for _, split := range []bool{true, false} {
		out, p := callRunner(b, split)
		d := map[string]interface{}{"request_bytes": string(b), "splitOutputs": split}
		kind := "short-string"
		if len(b) > 3 {
			kind = "edited-valid-request"
		}
		if p != nil {
			d["panic"] = fmt.Sprint(p)
			r.Failf("C17/runner-panics/bytes/"+kind, d, "request %q: RunSingleModelJSON panicked: %v", string(b), p)
			return
		}
		v, bad := decodeOne(out)
		if bad != "" {
			d["output"] = string(out)
			r.Failf("C17/not-exactly-one-json-document/bytes/"+kind, d, "request %q: %s", string(b), bad)
			return
		}
		rr, _ := v["RunResults"].(map[string]interface{})
		ran := rr != nil && rr["Outputs"] != nil
		if !ran {
			ok := false
			for _, s := range logs(v) {
				if strings.TrimSpace(s) != "" {
					ok = true
				}
			}
			if !ok {
				d["output"] = string(out)
				r.Failf("C17/error-case-without-description/bytes/"+kind, d, "request %q: no results and no log line describing the problem", string(b))
				return
			}
			r.Count("byte_requests_rejected_with_description", 1)
		} else {
			r.Count("byte_requests_that_ran_a_model", 1)
		}
	}
	r.MarkNontrivial()
}

// ---------------------------------------------------------------------------------------------
// JsonSafeArray over views

type viewCase struct {
	root            []int
	loc, dims, step []int // nil dims => the root itself
	nanOnly         bool  // plant a single NaN in the interior instead of NaN first / -Inf middle / +Inf last
}

func viewCases() []viewCase {
	var out []viewCase
	for _, root := range [][]int{{4}, {2, 3}, {2, 2, 3}} {
		out = append(out, viewCase{root: root})
		nd := len(root)
		var rec func(d int, loc, dims, step []int)
		rec = func(d int, loc, dims, step []int) {
			if d == nd {
				out = append(out, viewCase{root, append([]int{}, loc...), append([]int{}, dims...), append([]int{}, step...), false})
				return
			}
			for _, s := range []int{1, 2} {
				for l := 0; l < root[d]; l++ {
					for n := 1; l+(n-1)*s < root[d]; n++ {
						if n == 1 && s == 2 {
							continue
						}
						rec(d+1, append(loc, l), append(dims, n), append(step, s))
					}
				}
			}
		}
		rec(0, nil, nil, nil)
	}
	// the same views with a single NaN somewhere inside and nothing else non-finite
	for _, vc := range append([]viewCase{}, out...) {
		vc.nanOnly = true
		out = append(out, vc)
	}
	// long innermost runs (64 values and more)
	for _, nanOnly := range []bool{false, true} {
		out = append(out, viewCase{root: []int{70}, nanOnly: nanOnly}, viewCase{root: []int{130}, nanOnly: nanOnly}, viewCase{root: []int{2, 70}, nanOnly: nanOnly},
			viewCase{[]int{140}, []int{1}, []int{68}, []int{2}, nanOnly}, viewCase{[]int{2, 140}, []int{0, 3}, []int{2, 65}, []int{1, 2}, nanOnly},
			viewCase{[]int{3, 70}, []int{1, 2}, []int{2, 64}, []int{1, 1}, nanOnly})
	}
	return out
}

func runView(vc viewCase, r *vf.Rec) {
	n := data.Product(vc.root)
	vals := make([]float64, n)
	for i := range vals {
		vals[i] = float64(10 + i)
	}
	// plant non-finite values
	if vc.nanOnly {
		for k := 1; k < n; k += 7 { // every view of two or more elements in a row contains at most a few of them, never the first element of the root
			vals[k] = math.NaN()
		}
	} else {
		vals[0] = math.NaN()
		vals[n-1] = math.Inf(1)
		vals[n/2] = math.Inf(-1)
	}
	root := data.ArrayFromSliceFloat64(vals, vc.root)
	v := root
	shape := vc.root
	if vc.dims != nil {
		v = root.Slice(vc.loc, vc.dims, vc.step)
		shape = vc.dims
	}
	for shift := 0; shift < len(shape); shift++ {
		var got []interface{}
		if p := func() (p interface{}) {
			defer func() { p = recover() }()
			got = owjs.JsonSafeArray(v, shift)
			return nil
		}(); p != nil {
			r.Failf("C17/JsonSafeArray/panics", map[string]interface{}{"root": vc.root, "loc": vc.loc, "dims": vc.dims, "step": vc.step, "shiftDim": shift}, "JsonSafeArray panicked: %v", p)
			return
		}
		// round trip through the encoder as the runner does
		b, err := json.Marshal(got)
		if err != nil {
			r.Failf("C17/JsonSafeArray/not-encodable", map[string]interface{}{"root": vc.root, "dims": vc.dims, "shiftDim": shift}, "JsonSafeArray result cannot be encoded: %v", err)
			return
		}
		var dec interface{}
		json.Unmarshal(b, &dec)
		idx := make([]int, len(shape))
		var walk func(x interface{}, d int) string
		walk = func(x interface{}, d int) string {
			l, ok := x.([]interface{})
			if !ok || len(l) != shape[d] {
				return fmt.Sprintf("nesting level for dimension %d is not a list of %d", d, shape[d])
			}
			for i := range l {
				idx[d] = i
				if d == len(shape)-1 {
					want := v.Get(idx)
					if !sameNum(l[i], want) {
						return fmt.Sprintf("element %v = %v, array holds %v", append([]int{}, idx...), l[i], want)
					}
				} else if bad := walk(l[i], d+1); bad != "" {
					return bad
				}
			}
			return ""
		}
		for d := 0; d < shift; d++ {
			idx[d] = 0
		}
		if bad := walk(dec, shift); bad != "" {
			r.Failf("C17/JsonSafeArray/wrong-nesting-or-values", map[string]interface{}{"root": vc.root, "loc": vc.loc, "dims": vc.dims, "step": vc.step, "shiftDim": shift, "json": string(b)}, "JsonSafeArray(view %v of %v, shiftDim %d): %s", vc.dims, vc.root, shift, bad)
			return
		}
		r.Count("jsonsafe_conversions", 1)
	}
	r.MarkNontrivial()
}

// ---------------------------------------------------------------------------------------------

type enum struct {
	reqs     []reqCase
	bytes    [][]byte
	views    []viewCase
	directOK map[string]bool
}

func directPath() string { return filepath.Join(vf.Root, ".build", "c17-direct.json") }

func build(tier string) *enum {
	e := &enum{bytes: byteStrings(), views: viewCases(), directOK: map[string]bool{}}
	for _, name := range mrun.Names() {
		if !tables.Has(name) {
			continue // a model newer than the tables: not enumerated (reported by pre)
		}
		desc := sim.Catalog[name]().Description()
		if hasDims(desc) {
			continue // table-valued parameters cannot be expressed in a request
		}
		for _, ps := range paramShapes(desc) {
			for _, is := range inputShapes(desc) {
				for _, T := range []int{1, 3, 4000} {
					if T == 4000 && !(is == "all" && (ps == "all" || ps == "none")) {
						continue // one long request per model and parameter shape (the request text is far above 64 KiB)
					}
					if tier == "quick" && T == 1 && strings.Contains(is, ":") && !strings.HasSuffix(is, ":0") {
						continue
					}
					if T == 1 && strings.HasPrefix(is, "shorter") {
						continue // a zero-length series is a different request (a run of zero timesteps), not enumerated
					}
					for _, split := range []bool{true, false} {
						e.reqs = append(e.reqs, reqCase{name, ps, is, T, split})
					}
				}
			}
		}
	}
	if b, err := os.ReadFile(directPath()); err == nil {
		json.Unmarshal(b, &e.directOK)
	}
	return e
}

func (e *enum) N() int64 { return int64(len(e.reqs) + len(e.bytes) + len(e.views)) }
func (e *enum) Run(i int64, r *vf.Rec) {
	switch {
	case int(i) < len(e.reqs):
		r.Count("cases/structured-requests", 1)
		runReq(e.reqs[i], e.directOK, r)
	case int(i) < len(e.reqs)+len(e.bytes):
		r.Count("cases/byte-strings", 1)
		runBytes(e.bytes[int(i)-len(e.reqs)], r)
	default:
		r.Count("cases/jsonsafe-views", 1)
		runView(e.views[int(i)-len(e.reqs)-len(e.bytes)], r)
	}
}
func (e *enum) Describe(i int64) interface{} {
	switch {
	case int(i) < len(e.reqs):
		c := e.reqs[i]
		return map[string]interface{}{"kind": "structured request", "model": c.model, "parameters": c.pShape, "inputs": c.iShape, "T": c.T, "splitOutputs": c.split}
	case int(i) < len(e.reqs)+len(e.bytes):
		return map[string]interface{}{"kind": "byte string", "request": string(e.bytes[int(i)-len(e.reqs)])}
	}
	v := e.views[int(i)-len(e.reqs)-len(e.bytes)]
	return map[string]interface{}{"kind": "JsonSafeArray", "root": v.root, "loc": v.loc, "dims": v.dims, "step": v.step}
}
func (e *enum) CrashSig(i int64, tail string) (string, string) {
	if int(i) < len(e.reqs) {
		c := e.reqs[i]
		return "C17/crash/structured-request/" + c.model, fmt.Sprintf("%s (%s, %s): the process crashed although the direct run with these parameters completes", c.model, c.pShape, c.iShape)
	}
	if int(i) < len(e.reqs)+len(e.bytes) {
		return "C17/crash/byte-string", fmt.Sprintf("request %q crashed the process", string(e.bytes[int(i)-len(e.reqs)]))
	}
	return "C17/crash/JsonSafeArray", "JsonSafeArray crashed the process"
}

// sub-command --direct <model> <pshape>: does the direct run with these parameters complete? (exit status)
func sub(args []string) bool {
	if len(args) >= 3 && args[0] == "--direct" {
		t := tables.GetAny(args[1])
		desc := sim.Catalog[args[1]]().Description()
		_, pvec, _ := paramsFor(t, desc, args[2])
		_, eff, _, _ := inputsFor(t, desc, "all", 3)
		mrun.RunCell(args[1], pvec, eff, 3, nil)
		_, eff0, _, _ := inputsFor(t, desc, "all-missing", 3)
		mrun.RunCell(args[1], pvec, eff0, 3, nil)
		fmt.Fprintln(vf.Stdout, "ok")
		// the largest finite inputs are outside many kernels' domain: a second verdict line says whether the direct run survives them
		for _, T := range []int{1, 3} {
			_, effx, _, _ := inputsFor(t, desc, "extreme", T)
			mrun.RunCell(args[1], pvec, effx, T, nil)
		}
		fmt.Fprintln(vf.Stdout, "extreme-ok")
		return true
	}
	return false
}

func pre(tier string, r *vf.Rec) {
	self, _ := os.Executable()
	ok := map[string]bool{}
	crashes := 0
	for _, name := range mrun.Names() {
		if !tables.Has(name) {
			r.Note("catalogued_model_without_a_table/"+name, "not enumerated: /verif/tables has no parameter vectors and alphabet for it (the model was added after the tables were written)")
			continue
		}
		desc := sim.Catalog[name]().Description()
		if hasDims(desc) {
			continue
		}
		for _, ps := range paramShapes(desc) {
			cmd := exec.Command(self, "C17", "--direct", name, ps)
			out, err := cmd.Output()
			lines := strings.Fields(string(out))
			good := len(lines) > 0 && lines[0] == "ok"
			ok[name+"/"+ps] = good
			ok[name+"/"+ps+"/extreme"] = err == nil && len(lines) == 2 && lines[1] == "extreme-ok"
			if !good {
				crashes++
			}
		}
	}
	r.Count("parameter_shapes_whose_direct_run_crashes", int64(crashes))
	r.Count("parameter_shapes_probed_in_fresh_processes", int64(len(ok)/2))
	b, _ := json.Marshal(ok)
	os.MkdirAll(filepath.Join(vf.Root, ".build"), 0755)
	os.WriteFile(directPath(), b, 0644)
}

func Spec() *vf.Check {
	return &vf.Check{
		ID: "C17", Level: "exploration", BlockSize: 64, Sub: sub, Pre: pre,
		Rule: "(i) for each of the 39 tabulated models with scalar parameters: parameters in {none, all, each one alone, all + an unknown name, reversed order} x inputs in {all, each one missing, all missing, each one longer, each one shorter, an unknown extra (same length last; longer first; longer last), reversed order, the largest finite / smallest positive values in every series} x T in {1,3} (and 4000 for the complete requests) x splitOutputs: the answer is compared with a direct one-cell run (defaults / zeros, log lines), error cases must be answered with exactly one JSON document that describes the problem; " +
			"(ii) every byte string of length <= 3 over {{}}[]\":,1-ena\\ and space, and every single-byte deletion / substitution / truncation of three valid requests: no panic, exactly one JSON document, a description when nothing ran; (iii) JsonSafeArray over every depth-1 view (steps 1,2) of float64 roots [4],[2,3],[2,2,3] and six views with innermost runs of 64-130 values, with NaN/+Inf/-Inf planted (first/middle/last) and with interior NaNs only, x every shiftDim. distinct_nontrivial = cases answered as required.",
		Assumptions: []string{"requests whose parameters make the DIRECT run itself crash inside the model kernel (e.g. GR4J with all parameters defaulted to 0) are outside the statement and skipped; which ones is determined by running the direct run in a fresh process (counter parameter_shapes_whose_direct_run_crashes)",
			"models with table-valued parameters (Storage, RatingCurvePartition) cannot be configured through the request format and are not enumerated in (i)"},
		Build: func(tier string) vf.Enumeration { return build(tier) },
	}
}
