// Package c12: constituent transport and trapping models conserve mass.
// Every word over the model's alphabet is executed as a chain of single-step calls on the real model
// (so the stored masses before and after EVERY step are observable as state vectors) and the mass budget
// is evaluated on every step.
package c12

import (
	"fmt"
	"math"

	"github.com/flowmatters/openwater-core/sim"
	"owverif.local/verif/gridx"
	"owverif.local/verif/mrun"
	"owverif.local/verif/tables"
	"owverif.local/verif/vf"
)

const minVolume = 1e-2

type stepView struct {
	p, in, out    map[string]float64
	before, after []float64
	dt            float64
}

// budget describes one step: mass entering, mass leaving + reported sinks, stores before/after,
// and whether the documented low-volume flush applies.
type budget struct {
	in, out, sBefore, sAfter float64
	working                  float64 // mass that the documented low-volume flush may drop
	hasWorking               bool    // false => sBefore+in
	flush                    bool
	extra                    string // extra clause violated ("" if none)
}

type spec struct {
	model  string
	dtName string
	inits  [][]float64
	f      func(v *stepView) budget
	branch func(p map[string]float64) string
}

func specs() []spec {
	return []spec{
		{"LumpedConstituentRouting", "DeltaT", [][]float64{{0}, {1e3}}, func(v *stepView) budget {
			return budget{in: (v.in["inflowLoad"] + v.in["lateralLoad"] + v.p["pointInput"]) * v.dt, out: v.out["outflowLoad"] * v.dt, sBefore: v.before[0], sAfter: v.after[0],
				flush: v.in["outflow"]*v.dt+v.in["storage"] < minVolume}
		}, nil},
		{"ConstituentDecay", "DeltaT", [][]float64{{0}, {1e3}}, func(v *stepView) budget {
			return budget{in: (v.in["inflowLoad"] + v.in["lateralLoad"]) * v.dt, out: (v.out["outflowLoad"] + v.out["decayedLoad"]) * v.dt, sBefore: v.before[0], sAfter: v.after[0],
				flush: v.in["outflow"]*v.dt+v.in["storage"] < minVolume}
		}, func(p map[string]float64) string {
			if p["halfLife"] > 0 {
				return "decay"
			}
			return "no-decay"
		}},
		{"InstreamFineSediment", "durationInSeconds", [][]float64{{0, 0}, {5e3, 1e3}, {6e7, 1e3}, {4e5, 0}}, func(v *stepView) budget { // the last two initial channel stores exceed the capacity of (some of) the parameter vectors (3e7 kg; 3e5 kg)
			b := budget{in: (v.in["upstreamMass"] + v.in["lateralMass"] + v.in["reachLocalMass"]) * v.dt, out: (v.out["loadDownstream"] + v.out["loadToFloodplain"]) * v.dt,
				sBefore: v.before[0] + v.before[1], sAfter: v.after[0] + v.after[1], flush: v.in["reachVolume"]+v.in["outflow"]*v.dt < minVolume}
			b.hasWorking, b.working = true, v.before[1]+b.in+math.Max(0, v.before[0]-v.after[0])
			if v.after[0] < -1e-9 || v.before[0]-v.after[0] > v.before[0]+1e-9*math.Abs(v.before[0]) {
				b.extra = "remobilisation-exceeds-channel-store"
			}
			return b
		}, func(p map[string]float64) string {
			if p["bankFullFlow"] <= 1e-8 {
				return "bankfull=0"
			}
			return "bankfull>0"
		}},
		{"InstreamCoarseSediment", "durationInSeconds", [][]float64{{0, 0}, {5e3, 1e3}}, func(v *stepView) budget {
			return budget{in: (v.in["upstreamMass"] + v.in["lateralMass"] + v.in["reachLocalMass"]) * v.dt, out: v.out["loadDownstream"] * v.dt, sBefore: v.before[0] + v.before[1], sAfter: v.after[0] + v.after[1]}
		}, nil},
		{"InstreamParticulateNutrient", "durationInSeconds", [][]float64{{0, 0}, {1e3, 5e3}}, func(v *stepView) budget {
			return budget{in: (v.in["incomingMassUpstream"] + v.in["incomingMassLateral"] + v.in["streambankErosion"]*v.p["particulateNutrientConcentration"]) * v.dt,
				out: (v.out["loadDownstream"] + v.out["loadToFloodplain"]) * v.dt, sBefore: v.before[0] + v.before[1], sAfter: v.after[0] + v.after[1],
				flush:      v.in["outflow"]*v.dt+v.in["reachVolume"] < minVolume,
				hasWorking: true, working: v.before[0] + (v.in["incomingMassUpstream"]+v.in["incomingMassLateral"]+v.in["streambankErosion"]*v.p["particulateNutrientConcentration"])*v.dt + math.Max(0, v.before[1]-v.after[1])}
		}, nil},
		{"StorageParticulateTrapping", "DeltaT", [][]float64{{0}, {1e3}}, func(v *stepView) budget {
			return budget{in: v.in["inflowLoad"] * v.dt, out: v.out["outflowLoad"]*v.dt + v.out["trappedMass"], sBefore: v.before[0], sAfter: v.after[0]}
		}, func(p map[string]float64) string {
			if p["reservoirLength"] > 0 {
				return "trapping"
			}
			return "no-trapping"
		}},
		{"StorageTrapAll", "", [][]float64{{0}, {1e3}}, func(v *stepView) budget {
			// the model has no timestep parameter: budget in its own (per-step) units
			return budget{in: v.in["inflowMass"], out: v.out["outflowMass"] + v.out["trappedMass"], sBefore: v.before[0], sAfter: v.after[0]}
		}, nil},
		{"StorageDissolvedDecay", "DeltaT", [][]float64{{0}, {1e3}}, func(v *stepView) budget {
			return budget{in: v.in["inflowMass"] * v.dt, out: v.out["outflowMass"]*v.dt + v.out["decayedMass"], sBefore: v.before[0], sAfter: v.after[0],
				flush: v.in["outflow"]*v.dt+v.in["storageVolume"] < minVolume}
		}, nil},
	}
}

func oracle(s spec) func(c *gridx.Case, r *vf.Rec) {
	desc := sim.Catalog[s.model]().Description()
	return func(c *gridx.Case, r *vf.Rec) {
		p := map[string]float64{}
		for i, pd := range desc.Parameters {
			p[pd.Name] = c.Params[i]
		}
		dt := 1.0
		if s.dtName != "" {
			dt = p[s.dtName]
		}
		br := ""
		if s.branch != nil {
			br = "/" + s.branch(p)
		}
		state := c.Init
		moved := false
		chainOut := make([][]float64, len(desc.Outputs))
		chainScale := 0.0 // the largest mass handled so far in this chain: round-off residue of an earlier step is relative to it
		for t := 0; t < c.T; t++ {
			seg := c.RunSeg(t, t+1, state)
			v := &stepView{p: p, in: map[string]float64{}, out: map[string]float64{}, before: seg.Init, after: seg.States, dt: dt}
			for k, n := range desc.Inputs {
				v.in[n] = c.Inputs[k][t]
			}
			for k, n := range desc.Outputs {
				v.out[n] = seg.Out[k][0]
			}
			d := map[string]interface{}{"t": t, "params": p, "inputs": v.in, "outputs": v.out, "states_before": seg.Init, "states_after": seg.States}
			for n, x := range v.out {
				if math.IsNaN(x) || math.IsInf(x, 0) {
					r.Failf(fmt.Sprintf("C12/%s/non-finite-output/%s%s", s.model, n, br), d, "%s t=%d: output %s = %v", s.model, t, n, x)
					return
				}
			}
			for i, x := range seg.States {
				if math.IsNaN(x) || math.IsInf(x, 0) {
					r.Failf(fmt.Sprintf("C12/%s/non-finite-state/%d%s", s.model, i, br), d, "%s t=%d: state %d = %v", s.model, t, i, x)
					return
				}
			}
			b := s.f(v)
			scale := math.Max(math.Max(b.in, b.out), math.Max(math.Abs(b.sBefore), math.Abs(b.sAfter)))
			chainScale = math.Max(chainScale, scale)
			scale = chainScale
			tol := 1e-9*scale + 1e-12
			resid := b.sBefore + b.in - b.out - b.sAfter // > 0: mass lost, < 0: mass created
			if b.in > 0 || b.sBefore > 0 {
				moved = true
			}
			d["mass_in"], d["mass_out_and_sinks"], d["stored_before"], d["stored_after"], d["residual"] = b.in, b.out, b.sBefore, b.sAfter, resid
			if b.flush {
				r.Count("flush_steps", 1)
				w := b.working
				if !b.hasWorking {
					w = b.sBefore + b.in
				}
				if resid < -tol || resid > w+tol {
					r.Failf(fmt.Sprintf("C12/%s/mass-created-on-flush-step%s", s.model, br), d, "%s t=%d (volume below minimum): residual %g", s.model, t, resid)
					return
				}
			} else if math.Abs(resid) > tol {
				kind := "mass-lost"
				if resid < 0 {
					kind = "mass-created"
				}
				r.Failf(fmt.Sprintf("C12/%s/%s%s", s.model, kind, br), d, "%s t=%d: stored %g + in %g != out+sinks %g + stored %g (residual %g)", s.model, t, b.sBefore, b.in, b.out, b.sAfter, resid)
				return
			}
			for n, x := range v.out {
				if x < -tol && n != "loadToChannelDeposition" && n != "loadDeposited" && n != "channelDepositionFraction" {
					r.Failf(fmt.Sprintf("C12/%s/negative-load/%s%s", s.model, n, br), d, "%s t=%d: %s = %g", s.model, t, n, x)
					return
				}
			}
			if s.model != "InstreamParticulateNutrient" || true {
				for i, x := range seg.States {
					name := desc.States[i]
					if x < -tol && !(s.model == "InstreamParticulateNutrient" && name == "channelStoredMass") {
						r.Failf(fmt.Sprintf("C12/%s/negative-stored-mass/%s%s", s.model, name, br), d, "%s t=%d: stored mass %s = %g", s.model, t, name, x)
						return
					}
				}
			}
			if b.extra != "" {
				r.Failf(fmt.Sprintf("C12/%s/%s%s", s.model, b.extra, br), d, "%s t=%d: %s", s.model, t, b.extra)
				return
			}
			state = seg.States
			for k := range chainOut {
				chainOut[k] = append(chainOut[k], seg.Out[k][0])
			}
		}
		// the per-step observation above is only meaningful if a chain of single-step calls is the same computation as
		// ONE call over the whole word: outputs and final stores must agree
		whole := c.RunSeg(0, c.T, c.Init)
		wtol := 1e-9*chainScale + 1e-12
		for k := range whole.Out {
			for t := 0; t < c.T; t++ {
				if a, b := whole.Out[k][t], chainOut[k][t]; !(math.Abs(a-b) <= wtol+1e-9*math.Abs(b)) && !(math.IsNaN(a) && math.IsNaN(b)) {
					r.Failf(fmt.Sprintf("C12/%s/one-call-differs-from-the-chain-of-single-steps/output%s", s.model, br), map[string]interface{}{"output": desc.Outputs[k], "t": t, "one_call": a, "chain": b, "params": p},
						"%s: output %s at t=%d is %g when the word is run in one call and %g in the chain of single-step calls", s.model, desc.Outputs[k], t, a, b)
					return
				}
			}
		}
		for i := range whole.States {
			if a, b := whole.States[i], state[i]; !(math.Abs(a-b) <= wtol+1e-9*math.Abs(b)) {
				r.Failf(fmt.Sprintf("C12/%s/one-call-differs-from-the-chain-of-single-steps/state%s", s.model, br), map[string]interface{}{"state": i, "one_call": a, "chain": b, "params": p},
					"%s: final stored mass %d is %g when the word is run in one call and %g after the chain of single-step calls", s.model, i, a, b)
				return
			}
			if name := desc.States[i]; whole.States[i] < -wtol && !(s.model == "InstreamParticulateNutrient" && name == "channelStoredMass") {
				r.Failf(fmt.Sprintf("C12/%s/negative-stored-mass/%s%s", s.model, name, br), map[string]interface{}{"one_call_final_states": whole.States, "params": p}, "%s: stored mass %s = %g after one call over the whole word", s.model, name, whole.States[i])
				return
			}
		}
		if moved {
			r.MarkNontrivial()
		}
	}
}

func spaces(tier string) []*gridx.Space {
	T := 5
	if tier == "thorough" {
		T = 6
	}
	var out []*gridx.Space
	for _, s := range specs() {
		t := tables.Get(s.model)
		params, names := t.Params, t.PNames
		if s.model == "StorageDissolvedDecay" {
			// the statement covers the decay-disabled configuration only
			params, names = params[:1], names[:1]
		}
		out = append(out, &gridx.Space{Model: s.model, Params: params, PNames: names, Letters: t.Letters, T: T, Inits: s.inits, Oracle: oracle(s)})
	}
	// single calls over long series (1024 = a multiple of every power-of-two block size up to 1024; 1027 = no such multiple)
	for _, s := range append([]*gridx.Space{}, out...) {
		out = append(out, s.LongClones([]int{1024, 1027}, 3)...)
	}
	return out
}

var _ = mrun.SameBits

func Spec() *vf.Check {
	return &vf.Check{
		ID: "C12", Level: "exploration", BlockSize: 512,
		Rule: "8 constituent models x parameter vectors forcing each branch (bank-full 0/>0, deposition/remobilisation/neither, half-life 0/finite, trapping on/off, decay disabled) x initial stored masses {0, >0} x every word of length T over the model's alphabet (zero-flow, near-empty below the minimum volume, above bank-full), executed as a chain of single-step calls so every step's stores are observed; " +
			"per step: stored_before + mass_in = mass_out + reported sinks + stored_after (1e-9 relative), except on steps whose working volume is below the minimum-volume threshold (loss up to the working mass allowed, never a gain); loads and stored masses >= 0; remobilisation <= channel store; the same word run in ONE call gives the same outputs and final stores as the chain. distinct_nontrivial = chains that moved mass.",
		Assumptions: []string{"stores are read from the state vector (not from reported rates)", "StorageTrapAll has no timestep parameter: its budget is taken in its own per-step units", "InstreamParticulateNutrient's bed store may be drawn negative by a negative channel-deposition signal (an input); only the in-stream store is required to be >= 0", "lattice values only"},
		Build:       func(tier string) vf.Enumeration { return gridx.NewEnum("C12", spaces(tier)) },
	}
}
