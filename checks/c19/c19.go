// Package c19: the date generator follows the proleptic Gregorian calendar.
// State machine = (day, month, year); ALL 146097 states of a 400-year cycle are start states; every
// day->next-day transition is executed and compared with Go's time package.
package c19

import (
	"fmt"
	"time"

	"owverif.local/verif/mrun"
	"owverif.local/verif/vf"
)

const cycleDays = 146097

type enum struct {
	tier  string
	steps int
	extra [][4]int // y, m, d, steps
}

var base = time.Date(2000, 1, 1, 0, 0, 0, 0, time.UTC)

func (e *enum) N() int64 { return cycleDays + int64(len(e.extra)) }

func (e *enum) start(i int64) (time.Time, int) {
	if i < cycleDays {
		return base.AddDate(0, 0, int(i)), e.steps
	}
	x := e.extra[i-cycleDays]
	return time.Date(x[0], time.Month(x[1]), x[2], 0, 0, 0, 0, time.UTC), x[3]
}

func (e *enum) Describe(i int64) interface{} {
	t, n := e.start(i)
	return map[string]interface{}{"model": "DateGenerator", "start": t.Format("2006-01-02"), "steps": n}
}

func (e *enum) CrashSig(i int64, tail string) (string, string) {
	return "C19/crash", "DateGenerator.Run crashed"
}

func (e *enum) Run(i int64, r *vf.Rec) {
	t0, n := e.start(i)
	y, m, d := t0.Date()
	tick := make([]float64, n)
	res := mrun.RunCell("DateGenerator", []float64{float64(d), float64(m), float64(y)}, [][]float64{tick}, n, nil)
	r.State(uint64(t0.Unix()/86400 + 1000000))
	r.MarkNontrivial()
	r.Count("steps_checked", int64(n))
	boundary := false
	for k := 0; k < n; k++ {
		want := t0.AddDate(0, 0, k)
		wy, wm, wd := want.Date()
		if wd == 1 {
			boundary = true
		}
		got := [4]float64{res.Out[0][k], res.Out[1][k], res.Out[2][k], res.Out[3][k]}
		exp := [4]float64{float64(wd), float64(wm), float64(wy), float64(want.YearDay())}
		if got != exp {
			kind := "date"
			if got[0] == exp[0] && got[1] == exp[1] && got[2] == exp[2] {
				kind = "dayOfYear"
			}
			cls := "ordinary-day"
			prev := want.AddDate(0, 0, -1)
			switch {
			case wm == 3 && wd == 1 || (wm == 2 && wd == 29) || (prev.Month() == 2 && prev.Day() >= 28):
				cls = "february-end"
			case wm == 1 && wd == 1:
				cls = "year-end"
			case wd == 1:
				cls = "month-end"
			}
			r.Failf(fmt.Sprintf("C19/%s-wrong/%s", kind, cls), map[string]interface{}{"step": k, "got_d_m_y_doy": got, "want_d_m_y_doy": exp},
				"start %s step %d: generator gives d/m/y/doy=%v, calendar says %v", t0.Format("2006-01-02"), k, got, exp)
			return
		}
	}
	if boundary {
		r.Count("runs_crossing_month_boundary", 1)
	}
}

func Spec() *vf.Check {
	return &vf.Check{
		ID:        "C19",
		Level:     "model_checking",
		BlockSize: 1024,
		Rule: "explicit enumeration of the generator's state machine: every one of the 146097 dates of the cycle 2000-01-01..2399-12-31 is a start state, " +
			"run for a fixed number of steps through the catalogued DateGenerator (ApplyParameters/InitialiseStates/Run) and compared step by step with time.Date.AddDate/YearDay; " +
			"plus long single runs. A case is non-trivial always (each start is a distinct state).",
		Assumptions: []string{"Go's time package implements the proleptic Gregorian calendar", "the generator's state is exactly (day, month, year): period 146097"},
		Build: func(tier string) vf.Enumeration {
			e := &enum{tier: tier, steps: 62}
			long := cycleDays + 366
			if tier == "thorough" {
				e.steps = 800
			}
			e.extra = [][4]int{{1600, 1, 1, long}, {1, 1, 1, long}, {9996, 2, 28, 1500}, {1900, 2, 27, 800}, {2100, 2, 27, 800}}
			return e
		},
		Finish: func(tier string, m *vf.Merged, cov map[string]interface{}) {
			cov["states"] = len(m.States)
			cov["transitions"] = len(m.States) // each start state's first day->next-day transition is distinct; all later ones are re-executions
			cov["traces_validated_against_impl"] = m.Evals
			cov["explanation"] = "states = distinct start dates driven through the real model; transitions = distinct day->next-day transitions executed as first step of a run (every one is also re-executed from earlier starts, see counters.steps_checked)"
		},
	}
}
