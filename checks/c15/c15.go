// Package c15: GR4J computes the published GR4J equations (Perrin, Michel & Andreassian 2003).
// Oracle: an independent implementation written from the paper (direct convolution over the history of
// routed water, no shared code), compared on every step of every word for a lattice covering every
// unit-hydrograph length.
package c15

import (
	"fmt"
	"math"

	"owverif.local/verif/gridx"
	"owverif.local/verif/vf"
)

func sh1(t, x4 float64) float64 {
	switch {
	case t <= 0:
		return 0
	case t < x4:
		return math.Pow(t/x4, 2.5)
	}
	return 1
}

func sh2(t, x4 float64) float64 {
	switch {
	case t <= 0:
		return 0
	case t <= x4:
		return 0.5 * math.Pow(t/x4, 2.5)
	case t < 2*x4:
		return 1 - 0.5*math.Pow(2-t/x4, 2.5)
	}
	return 1
}

type refOut struct {
	q      []float64
	s, r   float64
	q9, q1 []float64 // pending releases after the run
}

// ref runs the published model. q9init/q1init: water already scheduled for release at steps 0,1,...
func ref(x1, x2, x3, x4 float64, rain, pet []float64, s, r float64, q9init, q1init []float64) refOut {
	n1 := int(math.Ceil(x4))
	n2 := int(math.Ceil(2 * x4))
	uh1 := make([]float64, n1)
	uh2 := make([]float64, n2)
	for j := 1; j <= n1; j++ {
		uh1[j-1] = sh1(float64(j), x4) - sh1(float64(j-1), x4)
	}
	for j := 1; j <= n2; j++ {
		uh2[j-1] = sh2(float64(j), x4) - sh2(float64(j-1), x4)
	}
	T := len(rain)
	pr := make([]float64, T)
	out := refOut{q: make([]float64, T)}
	conv := func(t int, uh []float64, init []float64, frac float64) float64 {
		v := 0.0
		if t < len(init) {
			v = init[t]
		}
		for k := 0; k < len(uh); k++ {
			if u := t - k; u >= 0 && u < T {
				v += frac * uh[k] * pr[u]
			}
		}
		return v
	}
	for t := 0; t < T; t++ {
		P, E := rain[t], pet[t]
		var ps, es, pn float64
		if P >= E {
			pn = P - E
			w := math.Min(pn/x1, 13)
			th := math.Tanh(w)
			ps = x1 * (1 - (s/x1)*(s/x1)) * th / (1 + (s/x1)*th)
		} else {
			en := E - P
			w := math.Min(en/x1, 13)
			th := math.Tanh(w)
			es = s * (2 - s/x1) * th / (1 + (1-s/x1)*th)
		}
		s = s - es + ps
		perc := s * (1 - math.Pow(1+math.Pow(4.0/9.0*s/x1, 4), -0.25))
		s -= perc
		pr[t] = perc + (pn - ps)
		q9 := conv(t, uh1, q9init, 0.9)
		q1 := conv(t, uh2, q1init, 0.1)
		f := x2 * math.Pow(r/x3, 3.5)
		r = math.Max(0, r+q9+f)
		qr := r * (1 - math.Pow(1+math.Pow(r/x3, 4), -0.25))
		r -= qr
		qd := math.Max(0, q1+f)
		out.q[t] = qr + qd
	}
	out.s, out.r = s, r
	out.q9 = make([]float64, n1)
	out.q1 = make([]float64, n2)
	for i := 0; i < n1; i++ {
		out.q9[i] = conv(T+i, uh1, q9init, 0.9)
	}
	for i := 0; i < n2; i++ {
		out.q1[i] = conv(T+i, uh2, q1init, 0.1)
	}
	return out
}

func band(x4 float64) string {
	switch {
	case x4 == 0.5:
		return "x4=0.5"
	case x4 < 1:
		return "0.5<x4<1"
	case x4 <= 2:
		return "1<=x4<=2"
	}
	return "x4>2"
}

func closeEnough(a, b, scale float64) bool {
	if math.IsNaN(a) || math.IsNaN(b) {
		return false
	}
	return math.Abs(a-b) <= 1e-9*math.Max(scale, math.Max(math.Abs(a), math.Abs(b)))+1e-12
}

func oracle(c *gridx.Case, r *vf.Rec) {
	x1, x2, x3, x4 := c.Params[0], c.Params[1], c.Params[2], c.Params[3]
	if c.Init != nil {
		// the mid-fill table holds the stores as fractions of their capacities
		init := append([]float64{}, c.Init...)
		init[0] *= x1
		init[1] *= x3
		cc := *c
		cc.Init = init
		c = &cc
	}
	res := c.Run()
	n1 := int(math.Ceil(x4))
	n2 := int(math.Ceil(2 * x4))
	init := res.Init
	q1i := append([]float64{}, init[4:4+n2]...)
	q9i := append([]float64{}, init[4+n2:4+n2+n1]...)
	want := ref(x1, x2, x3, x4, c.Inputs[0], c.Inputs[1], init[0], init[1], q9i, q1i)
	scale := 1.0
	for _, v := range c.Inputs[0] {
		scale = math.Max(scale, v)
	}
	d := func(extra map[string]interface{}) map[string]interface{} {
		extra["params"] = map[string]float64{"X1": x1, "X2": x2, "X3": x3, "X4": x4}
		extra["runoff_model"] = res.Out[0]
		extra["runoff_reference"] = want.q
		return extra
	}
	for t := 0; t < c.T; t++ {
		if !closeEnough(res.Out[0][t], want.q[t], scale) {
			r.Failf("C15/runoff-differs-from-published-equations/"+band(x4), d(map[string]interface{}{"t": t}), "GR4J x4=%g t=%d: runoff %.12g, published equations give %.12g", x4, t, res.Out[0][t], want.q[t])
			return
		}
	}
	st := res.States
	if !closeEnough(st[0], want.s, x1) {
		r.Failf("C15/production-store-differs/"+band(x4), d(map[string]interface{}{"got": st[0], "want": want.s}), "GR4J final production store %.12g, reference %.12g", st[0], want.s)
		return
	}
	if !closeEnough(st[1], want.r, x3) {
		r.Failf("C15/routing-store-differs/"+band(x4), d(map[string]interface{}{"got": st[1], "want": want.r, "states": st}), "GR4J final routing store %.12g, reference %.12g", st[1], want.r)
		return
	}
	if int(st[2]) != n1 || int(st[3]) != n2 {
		r.Failf("C15/uh-lengths-differ", d(map[string]interface{}{"states": st}), "GR4J x4=%g: n1,n2 = %g,%g want %d,%d", x4, st[2], st[3], n1, n2)
		return
	}
	for i := 0; i < n2; i++ {
		if !closeEnough(st[4+i], want.q1[i], scale) {
			r.Failf("C15/uh2-store-differs/"+band(x4), d(map[string]interface{}{"i": i, "got": st[4 : 4+n2], "want": want.q1}), "GR4J x4=%g: UH2 store %v, reference %v", x4, st[4:4+n2], want.q1)
			return
		}
	}
	for i := 0; i < n1; i++ {
		if !closeEnough(st[4+n2+i], want.q9[i], scale) {
			r.Failf("C15/uh1-store-differs/"+band(x4), d(map[string]interface{}{"i": i, "got": st[4+n2 : 4+n2+n1], "want": want.q9}), "GR4J x4=%g: UH1 store %v, reference %v", x4, st[4+n2:4+n2+n1], want.q9)
			return
		}
	}
	for _, v := range res.Out[0] {
		if v > 0 {
			r.MarkNontrivial()
			break
		}
	}
}

var x4s = []float64{0.5, 0.6, 0.75, 0.9, 1, 1.1, 1.5, 1.9, 2, 2.2, 2.5, 3, 3.3, 3.9, 4, 0.55, 0.8, 1.2, 1.3, 1.6, 1.75, 2.1, 2.4, 2.6, 2.9, 3.1, 3.6, 3.75} // 28 values: more than a small cache holds, several per half-day bucket

func spaces(tier string) []*gridx.Space {
	T := 4
	if tier == "thorough" {
		T = 6
	}
	letters := [][]float64{{0, 0}, {0, 4}, {3, 4}, {40, 1}, {120, 0}}
	A := func(n string, v ...float64) gridx.Axis { return gridx.Axis{Name: n, Vals: v} }
	var out []*gridx.Space
	for _, x4 := range x4s {
		ps, pn := gridx.Grid("GR4J", map[string]float64{"X4": x4}, []gridx.Axis{A("X1", 1, 100, 350, 1500), A("X2", -10, -3, 0, 2, 5), A("X3", 1, 5, 20, 90, 500)})
		n1 := int(math.Ceil(x4))
		n2 := int(math.Ceil(2 * x4))
		// mid-fill initial state: S = 0.6*X1, R = 0.7*X3 (fractions, scaled in the oracle), buffers with distinct pending releases
		mid := []float64{0.6, 0.7, float64(n1), float64(n2)}
		for i := 0; i < n2; i++ {
			mid = append(mid, 0.3+0.1*float64(i))
		}
		for i := 0; i < n1; i++ {
			mid = append(mid, 2.0+0.5*float64(i))
		}
		out = append(out, &gridx.Space{Name: fmt.Sprintf("GR4J/x4=%g", x4), Model: "GR4J", Params: ps, PNames: pn, Letters: letters, T: T, Inits: [][]float64{nil, mid}, Oracle: oracle, SecondPassEvery: 16})
	}
	// (no long single-call series here: with X2 = -10, X3 = 1 the routing store alternates between its clipped and unclipped
	// branch and amplifies a 1-ulp difference between two correct implementations by ~6 % per step, 4e-7 relative after 350
	// steps; long series of GR4J are compared against the library itself in C06 (split runs) and C14 (truncations))
	return out
}

func Spec() *vf.Check {
	return &vf.Check{
		ID: "C15", Level: "exploration", BlockSize: 4096,
		Rule: "X4 in {0.5,0.6,0.75,0.9,1,1.1,1.5,1.9,2,2.2,2.5,3,3.3,3.9,4} (every n1=ceil(X4) in 1..4 and n2=ceil(2*X4) in 1..8) x X1{1,100,350,1500} x X2{-10,-3,0,2,5} x X3{1,5,20,90,500} (the documented range ends included) x {model-initialised, mid-fill} initial stores x every (rain,PET) word of length T over {(0,0),(0,4),(3,4),(40,1),(120,0)}; " +
			"runoff at every step and final S, R, UH stores compared (1e-9 relative) with an independent implementation of Perrin et al. 2003. distinct_nontrivial = cases with runoff > 0.",
		Assumptions: []string{"the reference follows Perrin et al. (2003): S-curves with exponent 5/2, percolation constant 4/9, 90/10 split, exchange x2 (R/x3)^(7/2), tanh argument capped at 13 as in the original code", "lattice values only"},
		Build:       func(tier string) vf.Enumeration { return gridx.NewEnum("C15", spaces(tier)) },
	}
}
