package c08

// C08 (c): lock discipline of /repo/io under all interleavings of concurrent callers.
// Needs the instrumented build (io's sync replaced by vsync, fake HDF5 hook = vrt.Call).

import (
	"fmt"
	"sort"
	"strings"

	"github.com/flowmatters/openwater-core/data"
	"github.com/flowmatters/openwater-core/io"
	"gonum.org/v1/hdf5"
	"owverif.local/verif/sched"
	"owverif.local/verif/vf"
	"owverif.local/verif/vrt"
)

type lop struct {
	name string
	run  func(fn string, tid int) string // returns the operation's observation
}

func arr(vals []float64, shape []int) data.NDFloat64 { return data.ArrayFromSliceFloat64(vals, shape) }

func obs(a data.NDFloat64, err error) string {
	if err != nil {
		return "err"
	}
	return fmt.Sprint(a.Shape(), a.Unroll())
}

var lockOps = []lop{
	{"Load", func(fn string, t int) string { return obs(io.H5RefFloat64{Filename: fn, Dataset: "/d"}.Load()) }},
	{"LoadSel", func(fn string, t int) string {
		return obs(io.H5RefFloat64{Filename: fn, Dataset: "/d", Slice: [][]int{{0, 2, 1}, {0, 3, 2}}}.Load())
	}},
	{"LoadText", func(fn string, t int) string {
		s, err := io.H5RefFloat64{Filename: fn, Dataset: "/names"}.LoadText()
		return fmt.Sprint(s, err != nil)
	}},
	{"Shape", func(fn string, t int) string {
		s, err := io.H5RefFloat64{Filename: fn, Dataset: "/d"}.Shape()
		return fmt.Sprint(s, err != nil)
	}},
	{"Exists", func(fn string, t int) string {
		return fmt.Sprint(io.H5RefFloat64{Filename: fn, Dataset: "/g/e"}.Exists())
	}},
	{"Write", func(fn string, t int) string {
		v := make([]float64, 6)
		for i := range v {
			v[i] = float64(100*(t+1) + i)
		}
		return fmt.Sprint(io.H5RefFloat64{Filename: fn, Dataset: "/d"}.Write(arr(v, []int{2, 3})) != nil)
	}},
	{"WriteSlice", func(fn string, t int) string {
		v := []float64{float64(1000*(t+1) + 1), float64(1000*(t+1) + 2)}
		return fmt.Sprint(io.H5RefFloat64{Filename: fn, Dataset: "/d"}.WriteSlice(arr(v, []int{1, 2}), []int{1, 1}) != nil)
	}},
	{"Create", func(fn string, t int) string {
		return fmt.Sprint(io.H5RefFloat64{Filename: fn, Dataset: "/g/e"}.Create([]int{2, 2}, 0, false) != nil)
	}},
	{"WriteE", func(fn string, t int) string {
		v := []float64{float64(t + 1), 2, 3, 4}
		return fmt.Sprint(io.H5RefFloat64{Filename: fn, Dataset: "/g/e"}.Write(arr(v, []int{2, 2})) != nil)
	}},
}

type scenario struct {
	threads  [][]int // op indices per thread
	twoFiles bool    // caller 0 works on one file, the other callers on another (the library is not thread safe as a whole)
}

func (s scenario) file(fn string, t int) string {
	if s.twoFiles && t > 0 {
		return fn + "-other"
	}
	return fn
}

func (s scenario) dump(fn string) string {
	if s.twoFiles {
		return dumpKey(fn) + "##" + dumpKey(fn+"-other")
	}
	return dumpKey(fn)
}

func (s scenario) String() string {
	var parts []string
	for _, t := range s.threads {
		var ns []string
		for _, o := range t {
			ns = append(ns, lockOps[o].name)
		}
		parts = append(parts, strings.Join(ns, ";"))
	}
	if s.twoFiles {
		return strings.Join(parts, " || ") + " [caller 0 on another file]"
	}
	return strings.Join(parts, " || ")
}

func initFile(fn string) {
	hdf5.FakeReset()
	hdf5.FakePutDataset(fn, "/d", []int{2, 3}, []float64{10, 11, 12, 13, 14, 15})
	hdf5.FakePutStrings(fn, "/names", []string{"alpha", "beta"}, 8)
	hdf5.FakePutDataset(fn+"-other", "/d", []int{2, 3}, []float64{10, 11, 12, 13, 14, 15})
	hdf5.FakePutStrings(fn+"-other", "/names", []string{"alpha", "beta"}, 8)
}

func dumpKey(fn string) string {
	d, groups := hdf5.FakeDump(fn)
	var ks []string
	for k, v := range d {
		ks = append(ks, fmt.Sprintf("%s%v%v", k, v.Dims, v.Values))
	}
	sort.Strings(ks)
	return strings.Join(ks, ";") + "|" + strings.Join(groups, ",")
}

// sequentialOutcomes: every merge order of the threads' operation sequences, executed one after the other.
func sequentialOutcomes(fn string, sc scenario) map[string]bool {
	out := map[string]bool{}
	pos := make([]int, len(sc.threads))
	var order [][2]int
	var rec func()
	rec = func() {
		done := true
		for t := range sc.threads {
			if pos[t] < len(sc.threads[t]) {
				done = false
				order = append(order, [2]int{t, pos[t]})
				pos[t]++
				rec()
				pos[t]--
				order = order[:len(order)-1]
			}
		}
		if done {
			initFile(fn)
			res := make([][]string, len(sc.threads))
			for t := range res {
				res[t] = make([]string, len(sc.threads[t]))
			}
			for _, st := range order {
				res[st[0]][st[1]] = lockOps[sc.threads[st[0]][st[1]]].run(sc.file(fn, st[0]), st[0])
			}
			out[fmt.Sprint(res)+"#"+sc.dump(fn)] = true
		}
	}
	rec()
	return out
}

// lockMonitor checks the discipline on one execution's event log.
func lockMonitor(events []vrt.Event) string {
	mode := map[int]string{} // thread -> "", "r", "w"
	open := map[int]string{} // thread -> name of the library call it is inside ("" if none)
	openW := map[int]bool{}
	for _, e := range events {
		switch e.Op {
		case vrt.OpLock:
			mode[e.Thread] = "w"
		case vrt.OpRLock:
			mode[e.Thread] = "r"
		case vrt.OpUnlock, vrt.OpRUnlock:
			mode[e.Thread] = ""
		case vrt.OpCall:
			write := e.Arg&1 != 0
			if e.Obj == 1 { // begin
				if mode[e.Thread] == "" {
					return fmt.Sprintf("library-call-without-the-package-lock: %s by thread %d", e.Name, e.Thread)
				}
				if write && mode[e.Thread] != "w" {
					return fmt.Sprintf("write-class-call-under-read-lock: %s by thread %d", e.Name, e.Thread)
				}
				for u, n := range open {
					if u != e.Thread && n != "" && (write || openW[u]) {
						return fmt.Sprintf("write-class-call-overlaps-another-call: %s (thread %d) while thread %d is inside %s", e.Name, e.Thread, u, n)
					}
				}
				open[e.Thread], openW[e.Thread] = e.Name, write
			} else {
				open[e.Thread] = ""
			}
		}
	}
	return ""
}

// instrumented: this binary was built from the rewritten io package (see scripts/sched_build.sh).
func instrumented(fn string) bool { return vrt.Instrumented == "yes" }

func runScenario(sc scenario, r *vf.Rec) {
	fn := h5file()
	hdf5.Hook = nil
	allowed := sequentialOutcomes(fn, sc)
	var res [][]string
	h := &sched.Harness{
		Name: sc.String(),
		Reset: func() {
			hdf5.Hook = vrt.Call
			initFile(fn)
			res = make([][]string, len(sc.threads))
			for t := range res {
				res[t] = make([]string, len(sc.threads[t]))
			}
		},
		Body: func() {
			done := vrt.MakeChanInt(0)
			for t := range sc.threads {
				t := t
				vrt.Go(func() {
					for k, o := range sc.threads[t] {
						res[t][k] = lockOps[o].run(sc.file(fn, t), t)
					}
					done.Send(t)
				})
			}
			for range sc.threads {
				done.Recv()
			}
		},
		Observe: func(rr vrt.Result) sched.Outcome {
			if bad := lockMonitor(rr.Events); bad != "" {
				return sched.Outcome{Key: "monitor", Problem: "lock-discipline/" + strings.SplitN(bad, ":", 2)[0], Detail: bad}
			}
			key := fmt.Sprint(res) + "#" + sc.dump(fn)
			if !allowed[key] {
				return sched.Outcome{Key: key, Problem: "not-linearizable", Detail: "results and final file content equal no sequential order of the operations: " + key}
			}
			return sched.Outcome{Key: key}
		},
	}
	st := (&sched.Explorer{Deviations: true, Bound: lockBound, MaxExec: 300000}).Explore(h)
	hdf5.Hook = nil
	hdf5.FakeReset()
	r.Count("lock_scenarios", 1)
	r.Count("lock_schedules", int64(st.Executions))
	r.Count("lock_scheduling_points", int64(st.Points))
	if !st.Complete {
		r.Count("lock_explorations_cut", 1)
	}
	for kind, p := range st.Problems {
		r.Failf("C08/"+kind, map[string]interface{}{"scenario": sc.String(), "schedule": p.Choices, "detail": p.Detail, "events": p.Events}, "%s: %v [callers: %s]", kind, p.Detail, sc.String())
	}
	if len(st.Problems) == 0 {
		r.MarkNontrivial()
	}
}

var lockBound = 2

func lockScenarios(tier string) []scenario {
	if tier == "thorough" {
		lockBound = 3
	}
	var out []scenario
	n := len(lockOps)
	for a := 0; a < n; a++ {
		for b := 0; b < n; b++ {
			out = append(out, scenario{threads: [][]int{{a}, {b}}})
			if b >= a {
				out = append(out, scenario{threads: [][]int{{a}, {b}}, twoFiles: true})
			}
		}
	}
	for a := 0; a < n; a++ {
		for b := a; b < n; b++ {
			for c := b; c < n; c++ {
				if tier == "quick" && (a+b+c)%3 != 0 {
					continue
				}
				out = append(out, scenario{threads: [][]int{{a}, {b}, {c}}})
			}
		}
	}
	// two operations per caller
	for a := 0; a < n; a++ {
		for b := 0; b < n; b++ {
			if tier == "quick" && (a*n+b)%4 != 0 {
				continue
			}
			out = append(out, scenario{threads: [][]int{{a, b}, {5, 0}}}) // against Write;Load
			if (a*n+b)%4 == 1 {
				out = append(out, scenario{threads: [][]int{{a, b}, {5, 0}}, twoFiles: true})
			}
			if tier == "thorough" {
				out = append(out, scenario{threads: [][]int{{a, b}, {7, 8}}}, scenario{threads: [][]int{{a, b}, {6, 3}}}, scenario{threads: [][]int{{a, b}, {7, 8}}, twoFiles: true})
			}
		}
	}
	return out
}

func lockJobs(tier string) []job {
	fn := h5file()
	if !instrumented(fn) {
		return []job{{"locks", "-", func(r *vf.Rec) {
			r.Count("lock_part_skipped_build_not_instrumented", 1)
		}, map[string]interface{}{"part": "lock discipline", "skipped": "this binary was built without the rewritten io package"}}}
	}
	var out []job
	scs := lockScenarios(tier)
	const chunk = 12
	for lo := 0; lo < len(scs); lo += chunk {
		hi := lo + chunk
		if hi > len(scs) {
			hi = len(scs)
		}
		part := scs[lo:hi]
		out = append(out, job{"locks", "float64", func(r *vf.Rec) {
			for _, sc := range part {
				runScenario(sc, r)
			}
		}, map[string]interface{}{"part": "lock discipline", "first_scenario": part[0].String(), "scenarios": len(part)}})
	}
	return out
}
