// Package c08: HDF5 array I/O round-trips and addresses exactly the selected region (parts a, b).
// Runs the real /repo/io code against the in-memory stand-in for gonum hdf5 (fakehdf5).
package c08

import (
	"fmt"
	"os"
	"path/filepath"
	"reflect"
	"sort"
	"strings"

	"github.com/flowmatters/openwater-core/data"
	"github.com/flowmatters/openwater-core/io"
	"gonum.org/v1/hdf5"
	"owverif.local/verif/seqx"
	"owverif.local/verif/vf"
)

// Ref abstracts the generated H5Ref<T> types.
type Ref[T seqx.Number, A any] interface {
	Load() (A, error)
	Write(A) error
	Create(shape []int, fill T, compress bool) error
	WriteSlice(A, []int) error
	Exists() bool
	Shape() ([]int, error)
	GetDatasets() ([]string, error)
	GetGroups() ([]string, error)
}

type typ[T seqx.Number, A seqx.ND[T, A]] struct {
	name string
	mk   func(fn, ds string, sl [][]int) Ref[T, A]
	from func([]T, []int) A
}

func h5file() string {
	dir := filepath.Join(vf.Root, ".build", "h5")
	os.MkdirAll(dir, 0755)
	return filepath.Join(dir, fmt.Sprintf("c08-%d.h5", os.Getpid()))
}

func prod(s []int) int {
	p := 1
	for _, v := range s {
		p *= v
	}
	return p
}

func seq[T seqx.Number](n, base int) []T {
	v := make([]T, n)
	for i := range v {
		v[i] = T(base + i)
	}
	return v
}

// ---------------------------------------------------------------------------------------------
// (a) selections

type selCase struct {
	shape []int
	sel   [][]int
}

func selOptions(n int, full bool) [][]int {
	out := [][]int{nil}
	if full {
		for start := 0; start <= n+1; start++ {
			for stop := 0; stop <= n+2; stop++ {
				for step := 1; step <= 4; step++ {
					out = append(out, []int{start, stop, step})
				}
			}
		}
		return out
	}
	for _, start := range []int{0, 1} {
		for _, stop := range []int{n - 1, n, n + 1} {
			for _, step := range []int{1, 2} {
				out = append(out, []int{start, stop, step})
			}
		}
	}
	return out
}

func selCases(tier string) []selCase {
	var out []selCase
	for n := 1; n <= 6; n++ {
		for _, s := range selOptions(n, true) {
			out = append(out, selCase{[]int{n}, [][]int{s}})
		}
	}
	for _, a := range selOptions(3, true) {
		for _, b := range selOptions(4, tier == "thorough") {
			out = append(out, selCase{[]int{3, 4}, [][]int{a, b}})
		}
	}
	for _, a := range selOptions(2, false) {
		for _, b := range selOptions(3, false) {
			for _, c := range selOptions(4, false) {
				out = append(out, selCase{[]int{2, 3, 4}, [][]int{a, b, c}})
			}
		}
	}
	// long extents (runs of 64 and more selected elements; a block-wise transfer must still stop at the extent)
	wide := func(n int) [][]int {
		o := [][]int{nil}
		for _, start := range []int{0, 1, 5} {
			for _, stop := range []int{start + 63, start + 64, start + 65, n - 1, n, n + 1, n + 40} {
				for _, step := range []int{1, 2} {
					if stop > start {
						o = append(o, []int{start, stop, step})
					}
				}
			}
		}
		return o
	}
	for _, n := range []int{70, 130} {
		for _, s := range wide(n) {
			out = append(out, selCase{[]int{n}, [][]int{s}})
		}
	}
	for _, a := range selOptions(2, false) {
		for _, b := range wide(70) {
			out = append(out, selCase{[]int{2, 70}, [][]int{a, b}})
		}
	}
	return out
}

func indexSet(sel []int, n int) []int {
	if sel == nil {
		out := make([]int, n)
		for i := range out {
			out[i] = i
		}
		return out
	}
	var out []int
	stop := sel[1]
	if stop > n {
		stop = n
	}
	for x := sel[0]; x < stop; x += sel[2] {
		out = append(out, x)
	}
	return out
}

func runSel[T seqx.Number, A seqx.ND[T, A]](ty typ[T, A], c selCase, r *vf.Rec) {
	fn := h5file()
	hdf5.FakeReset()
	defer hdf5.FakeReset()
	// the caller's selection object: used for the load, checked afterwards, then used again on a larger dataset
	sel := make([][]int, len(c.sel))
	for i, s := range c.sel {
		if s != nil {
			sel[i] = append([]int{}, s...)
		}
	}
	if !loadSel(ty, fn, "/d", c.shape, c.sel, sel, "", r) {
		return
	}
	if !reflect.DeepEqual(sel, c.sel) {
		r.Failf("C08/load-modifies-the-callers-selection", map[string]interface{}{"element_type": ty.name, "shape": c.shape, "selection": c.sel, "selection_after_load": sel},
			"Load(%v) of a %v dataset changed the caller's selection to %v", c.sel, c.shape, sel)
		return
	}
	big := make([]int, len(c.shape))
	for i := range big {
		big[i] = c.shape[i] + 2
	}
	if !loadSel(ty, fn, "/big", big, c.sel, sel, "/selection-object-used-before-on-a-smaller-dataset", r) {
		return
	}
	r.MarkNontrivial()
}

// loadSel writes a dataset of the given shape and loads it with the selection object sel (whose intended value is want).
func loadSel[T seqx.Number, A seqx.ND[T, A]](ty typ[T, A], fn, ds string, shape []int, want, sel [][]int, tag string, r *vf.Rec) bool {
	c := selCase{shape, want}
	n := prod(c.shape)
	full := ty.from(seq[T](n, 10), c.shape)
	if err := ty.mk(fn, ds, nil).Write(full); err != nil {
		r.Failf("C08/write-fails", nil, "Write of a %v %s array failed: %v", c.shape, ty.name, err)
		return false
	}
	sets := make([][]int, len(c.shape))
	empty := false
	for d := range c.shape {
		sets[d] = indexSet(c.sel[d], c.shape[d])
		if len(sets[d]) == 0 {
			empty = true
		}
	}
	d := map[string]interface{}{"element_type": ty.name, "shape": c.shape, "selection": c.sel, "dataset": ds}
	var got A
	var err error
	p := func() (p interface{}) {
		defer func() { p = recover() }()
		got, err = ty.mk(fn, ds, sel).Load()
		return nil
	}()
	if p != nil {
		d["panic"] = fmt.Sprint(p)
		r.Failf("C08/load-selection-panics"+tag, d, "Load(%v) of a %v dataset panicked: %v", c.sel, c.shape, p)
		return false
	}
	if empty {
		// an empty selection: an error or an empty result, nothing more is required
		r.Count("empty_selections", 1)
		return true
	}
	if err != nil {
		d["error"] = err.Error()
		r.Failf("C08/load-selection-fails"+tag, d, "Load(%v) of a %v dataset failed: %v", c.sel, c.shape, err)
		return false
	}
	wantShape := make([]int, len(sets))
	for i := range sets {
		wantShape[i] = len(sets[i])
	}
	gs := got.Shape()
	if !reflect.DeepEqual(gs, wantShape) {
		cls := "step-divides-range"
		for dd := range c.sel {
			if s := c.sel[dd]; s != nil {
				stop := s[1]
				if stop > c.shape[dd] {
					stop = c.shape[dd]
				}
				if (stop-s[0])%s[2] != 0 {
					cls = "step-does-not-divide-range"
				}
			}
		}
		d["got_shape"], d["want_shape"] = gs, wantShape
		r.Failf("C08/selection-shape-wrong/"+cls+tag, d, "Load(%v) of a %v dataset has shape %v; the selection start..stop step has %v elements", c.sel, c.shape, gs, wantShape)
		return false
	}
	idx := make([]int, len(sets))
	for k := 0; k < prod(wantShape); k++ {
		src := make([]int, len(sets))
		for dd := range sets {
			src[dd] = sets[dd][idx[dd]]
		}
		if g, w := got.Get(idx), full.Get(src); g != w {
			d["index"], d["got"], d["want"] = append([]int{}, idx...), g, w
			r.Failf("C08/selection-values-wrong"+tag, d, "Load(%v): element %v is %v, the in-memory slice has %v", c.sel, idx, g, w)
			return false
		}
		data.Increment(idx, wantShape)
	}
	r.Count("selection_loads", 1)
	return true
}

// ---------------------------------------------------------------------------------------------
// (b) histories: explicit-state search over operation sequences, state = content of the (fake) file

type op struct {
	Kind  string  `json:"op"`
	Path  string  `json:"path"`
	Shape []int   `json:"shape,omitempty"`
	Src   string  `json:"source,omitempty"`
	Loc   []int   `json:"loc,omitempty"`
	Sel   [][]int `json:"selection,omitempty"`
}

func (o op) String() string {
	switch o.Kind {
	case "Create":
		return fmt.Sprintf("Create(%s,%v)", o.Path, o.Shape)
	case "Write":
		return fmt.Sprintf("Write(%s,%s%v)", o.Path, o.Src, o.Shape)
	case "WriteSlice":
		return fmt.Sprintf("WriteSlice(%s,%s%v@%v)", o.Path, o.Src, o.Shape, o.Loc)
	}
	return o.Kind + "(" + o.Path + ")"
}

var paths = []string{"/a", "/g/b"}
var shapes = [][]int{{3}, {2, 3}}

func alphabet() []op {
	var out []op
	for _, p := range paths {
		for _, s := range shapes {
			out = append(out, op{Kind: "Create", Path: p, Shape: s})
			for _, src := range []string{"contiguous", "column", "stepped", "reshaped"} {
				out = append(out, op{Kind: "Write", Path: p, Shape: s, Src: src})
			}
		}
		// a shape that differs from [3] only by a trailing dimension of length 1 (still a different shape)
		out = append(out, op{Kind: "Create", Path: p, Shape: []int{3, 1}}, op{Kind: "Write", Path: p, Shape: []int{3, 1}, Src: "contiguous"})
		// the transposed shape of [2,3]: same rank, same element count, different extents
		out = append(out, op{Kind: "Create", Path: p, Shape: []int{3, 2}}, op{Kind: "Write", Path: p, Shape: []int{3, 2}, Src: "contiguous"})
		// sub-blocks
		out = append(out, op{Kind: "WriteSlice", Path: p, Shape: []int{2}, Src: "stepped", Loc: []int{1}})
		out = append(out, op{Kind: "WriteSlice", Path: p, Shape: []int{1, 2}, Src: "column", Loc: []int{1, 1}})
		out = append(out, op{Kind: "WriteSlice", Path: p, Shape: []int{2, 1}, Src: "contiguous", Loc: []int{0, 2}})
	}
	return out
}

type mds[T seqx.Number] struct {
	shape []int
	vals  []T
}

type model[T seqx.Number] map[string]*mds[T]

func (m model[T]) key() string {
	var ks []string
	for k, v := range m {
		ks = append(ks, fmt.Sprintf("%s%v%v", k, v.shape, v.vals))
	}
	sort.Strings(ks)
	return strings.Join(ks, ";")
}

func (m model[T]) clone() model[T] {
	out := model[T]{}
	for k, v := range m {
		out[k] = &mds[T]{append([]int{}, v.shape...), append([]T{}, v.vals...)}
	}
	return out
}

// source builds an array of the given shape and values with the requested memory layout.
func source[T seqx.Number, A seqx.ND[T, A]](ty typ[T, A], kind string, shape []int, vals []T) A {
	n := prod(shape)
	switch kind {
	case "column": // last dimension taken from a wider array with a gap
		wide := append([]int{}, shape...)
		wide[len(wide)-1] = shape[len(shape)-1] + 2
		w := ty.from(make([]T, prod(wide)), wide)
		loc := make([]int, len(shape))
		loc[len(loc)-1] = 1
		v := w.Slice(loc, shape, nil)
		fill(v, shape, vals)
		return v
	case "stepped":
		wide := append([]int{}, shape...)
		wide[len(wide)-1] = shape[len(shape)-1]*2 + 1
		w := ty.from(make([]T, prod(wide)), wide)
		loc := make([]int, len(shape))
		loc[len(loc)-1] = 1
		step := make([]int, len(shape))
		for i := range step {
			step[i] = 1
		}
		step[len(step)-1] = 2
		v := w.Slice(loc, shape, step)
		fill(v, shape, vals)
		return v
	case "reshaped":
		flat := ty.from(append([]T{}, vals...), []int{n})
		return flat.MustReshape(shape)
	}
	return ty.from(append([]T{}, vals...), shape)
}

func fill[T seqx.Number, A seqx.ND[T, A]](v A, shape []int, vals []T) {
	idx := make([]int, len(shape))
	for k := 0; k < prod(shape); k++ {
		v.Set(idx, vals[k])
		data.Increment(idx, shape)
	}
}

// apply runs one operation on the real code and on the model; returns a discrepancy description.
func apply[T seqx.Number, A seqx.ND[T, A]](ty typ[T, A], fn string, m model[T], o op, depth int) string {
	ref := ty.mk(fn, o.Path, nil)
	vals := seq[T](prod(o.Shape), 100*(depth+1))
	cur := m[o.Path]
	switch o.Kind {
	case "Create":
		err := ref.Create(o.Shape, T(7), false)
		switch {
		case cur == nil:
			if err != nil {
				return "Create of a new dataset failed: " + err.Error()
			}
			m[o.Path] = &mds[T]{append([]int{}, o.Shape...), make([]T, prod(o.Shape))}
		case reflect.DeepEqual(cur.shape, o.Shape):
			if err != nil {
				return "Create of an existing dataset with the same shape failed: " + err.Error()
			}
		default:
			if err == nil {
				return "Create with a different shape on an existing dataset was not refused"
			}
		}
	case "Write":
		err := ref.Write(source(ty, o.Src, o.Shape, vals))
		switch {
		case cur == nil || reflect.DeepEqual(cur.shape, o.Shape):
			if err != nil {
				return "Write failed: " + err.Error()
			}
			m[o.Path] = &mds[T]{append([]int{}, o.Shape...), vals}
		default:
			if err == nil {
				return "Write of another shape onto an existing dataset was not refused"
			}
		}
	case "WriteSlice":
		fits := cur != nil && len(cur.shape) == len(o.Shape)
		if fits {
			for d := range o.Shape {
				if o.Loc[d]+o.Shape[d] > cur.shape[d] {
					fits = false
				}
			}
		}
		if !fits {
			return "" // not applicable in this state (undefined by the statement): skipped without running
		}
		if err := ref.WriteSlice(source(ty, o.Src, o.Shape, vals), o.Loc); err != nil {
			return "WriteSlice failed: " + err.Error()
		}
		idx := make([]int, len(o.Shape))
		for k := 0; k < prod(o.Shape); k++ {
			lin := 0
			for d := range idx {
				lin = lin*cur.shape[d] + o.Loc[d] + idx[d]
			}
			cur.vals[lin] = vals[k]
			data.Increment(idx, o.Shape)
		}
	}
	return ""
}

func applicable[T seqx.Number](m model[T], o op) bool {
	if o.Kind != "WriteSlice" {
		return true
	}
	cur := m[o.Path]
	if cur == nil || len(cur.shape) != len(o.Shape) {
		return false
	}
	for d := range o.Shape {
		if o.Loc[d]+o.Shape[d] > cur.shape[d] {
			return false
		}
	}
	return true
}

// observe compares everything observable through the API, and the file tree itself, with the model.
func observe[T seqx.Number, A seqx.ND[T, A]](ty typ[T, A], fn string, m model[T]) string {
	for _, p := range paths {
		ref := ty.mk(fn, p, nil)
		cur := m[p]
		if ex := ref.Exists(); ex != (cur != nil) {
			return fmt.Sprintf("Exists(%s) = %v, model %v", p, ex, cur != nil)
		}
		arr, err := ref.Load()
		shp, serr := ref.Shape()
		if cur == nil {
			if err == nil || serr == nil {
				return fmt.Sprintf("Load/Shape of the missing dataset %s did not fail", p)
			}
			continue
		}
		if err != nil || serr != nil {
			return fmt.Sprintf("Load/Shape(%s) failed: %v %v", p, err, serr)
		}
		if !reflect.DeepEqual(arr.Shape(), cur.shape) || !reflect.DeepEqual(shp, cur.shape) {
			return fmt.Sprintf("%s has shape %v / %v, model %v", p, arr.Shape(), shp, cur.shape)
		}
		got := arr.Unroll()
		for i := range got {
			if got[i] != cur.vals[i] {
				return fmt.Sprintf("%s element %d is %v, model %v (loaded %v, model %v)", p, i, got[i], cur.vals[i], got, cur.vals)
			}
		}
		// a strided selection of the last dimension must equal the in-memory slice
		last := len(cur.shape) - 1
		if cur.shape[last] >= 3 {
			sel := make([][]int, len(cur.shape))
			sel[last] = []int{1, cur.shape[last], 2}
			sub, err := ty.mk(fn, p, sel).Load()
			if err != nil {
				return fmt.Sprintf("Load(%s, %v) failed: %v", p, sel, err)
			}
			loc := make([]int, len(cur.shape))
			loc[last] = 1
			dims := append([]int{}, cur.shape...)
			dims[last] = (cur.shape[last] - 1 + 1) / 2
			step := make([]int, len(cur.shape))
			for i := range step {
				step[i] = 1
			}
			step[last] = 2
			want := arr.Slice(loc, dims, step).Unroll()
			if !reflect.DeepEqual(sub.Shape(), dims) || !reflect.DeepEqual(sub.Unroll(), want) {
				return fmt.Sprintf("Load(%s, %v) = %v %v, the in-memory slice is %v %v", p, sel, sub.Shape(), sub.Unroll(), dims, want)
			}
		}
	}
	// the file tree: exactly the model's datasets (and the groups they need)
	dump, _ := hdf5.FakeDump(fn)
	if len(dump) != len(m) {
		return fmt.Sprintf("the file holds %d datasets, the model %d", len(dump), len(m))
	}
	if _, ok := m["/a"]; ok {
		ds, _ := ty.mk(fn, "/", nil).GetDatasets()
		if len(ds) != 1 || ds[0] != "a" {
			return fmt.Sprintf("GetDatasets(/) = %v, want [a]", ds)
		}
	}
	if _, ok := m["/g/b"]; ok {
		gs, _ := ty.mk(fn, "/", nil).GetGroups()
		if len(gs) != 1 || gs[0] != "g" {
			return fmt.Sprintf("GetGroups(/) = %v, want [g]", gs)
		}
	}
	return ""
}

type histStats struct{ states, transitions, maxDepth int }

func runHistories[T seqx.Number, A seqx.ND[T, A]](ty typ[T, A], maxDepth int, r *vf.Rec) histStats {
	fn := h5file()
	alpha := alphabet()
	type node struct {
		hist []int
		m    model[T]
	}
	replay := func(hist []int) (model[T], string) {
		hdf5.FakeReset()
		m := model[T]{}
		for d, oi := range hist {
			if bad := apply(ty, fn, m, alpha[oi], d); bad != "" {
				return m, bad
			}
		}
		return m, ""
	}
	st := histStats{states: 1}
	seen := map[string]bool{model[T]{}.key(): true}
	frontier := []node{{nil, model[T]{}}}
	defer hdf5.FakeReset()
	for depth := 0; depth < maxDepth && len(frontier) > 0; depth++ {
		var next []node
		for _, nd := range frontier {
			for oi, o := range alpha {
				if !applicable(nd.m, o) {
					continue
				}
				hist := append(append([]int{}, nd.hist...), oi)
				st.transitions++
				var m model[T]
				var bad string
				p := func() (p interface{}) {
					defer func() { p = recover() }()
					m, bad = replay(hist)
					if bad == "" {
						bad = observe(ty, fn, m)
					}
					return nil
				}()
				names := []string{}
				for _, h := range hist {
					names = append(names, alpha[h].String())
				}
				d := map[string]interface{}{"element_type": ty.name, "history": names}
				if p != nil {
					r.Failf("C08/history/panic/"+o.Kind, d, "%s after %v: panic %v", ty.name, names, p)
					continue
				}
				if bad != "" {
					r.Failf("C08/history/"+o.Kind+"/"+classify(bad), d, "%s after %v: %s", ty.name, names, bad)
					continue
				}
				if k := m.key(); !seen[k] {
					seen[k] = true
					st.states++
					next = append(next, node{hist, m})
				}
			}
		}
		frontier = next
		if len(next) > 0 {
			st.maxDepth = depth + 1
		}
	}
	return st
}

func classify(bad string) string {
	switch {
	case strings.Contains(bad, "not refused"):
		return "different-shape-not-refused"
	case strings.Contains(bad, "Exists("):
		return "exists-wrong"
	case strings.Contains(bad, "in-memory slice"):
		return "strided-load-wrong"
	case strings.Contains(bad, "element"):
		return "contents-differ-from-model"
	case strings.Contains(bad, "shape"):
		return "shape-wrong"
	case strings.Contains(bad, "failed"):
		return "operation-failed"
	}
	return "other"
}

// ---------------------------------------------------------------------------------------------

type job struct {
	kind  string // sel | hist
	tname string
	run   func(r *vf.Rec)
	desc  interface{}
}

func jobsFor[T seqx.Number, A seqx.ND[T, A]](ty typ[T, A], tier string, selTypes bool) []job {
	var out []job
	depth := 3
	if tier == "thorough" {
		depth = 4
	}
	out = append(out, job{"hist", ty.name, func(r *vf.Rec) {
		st := runHistories(ty, depth, r)
		r.Count("history_states", int64(st.states))
		r.Count("history_transitions", int64(st.transitions))
		r.Note("histories/"+ty.name, fmt.Sprintf("states=%d transitions=%d max_depth=%d", st.states, st.transitions, st.maxDepth))
		r.MarkNontrivial()
	}, map[string]interface{}{"part": "histories", "element_type": ty.name, "max_depth": depth, "alphabet": len(alphabet())}})
	if selTypes {
		cs := selCases(tier)
		const chunk = 2000
		for lo := 0; lo < len(cs); lo += chunk {
			hi := lo + chunk
			if hi > len(cs) {
				hi = len(cs)
			}
			part := cs[lo:hi]
			out = append(out, job{"sel", ty.name, func(r *vf.Rec) {
				for _, c := range part {
					r.Count("selections", 1)
					runSel(ty, c, r)
				}
			}, map[string]interface{}{"part": "selections", "element_type": ty.name, "first": part[0], "count": len(part)}})
		}
	}
	out = append(out, job{"big", ty.name, func(r *vf.Rec) { bigWrites(ty, r) }, map[string]interface{}{"part": "write/load round trips of large arrays in every source layout", "element_type": ty.name}})
	return out
}

// bigWrites: Write then Load of arrays with thousands of elements in every source layout (a block-wise write of a
// non-contiguous view must not drop the last partial block): [5000], [1000,5], [366,12,3].
func bigWrites[T seqx.Number, A seqx.ND[T, A]](ty typ[T, A], r *vf.Rec) {
	fn := h5file()
	for _, shape := range [][]int{{5000}, {1000, 5}, {366, 12, 3}} {
		for _, kind := range []string{"contiguous", "column", "stepped", "reshaped"} {
			hdf5.FakeReset()
			n := prod(shape)
			vals := make([]T, n)
			for i := range vals {
				vals[i] = T(1 + i%9973)
			}
			src := source(ty, kind, shape, vals)
			r.Count("big_write_round_trips", 1)
			d := map[string]interface{}{"element_type": ty.name, "shape": shape, "source_layout": kind}
			if err := ty.mk(fn, "/big", nil).Write(src); err != nil {
				r.Failf("C08/big-write-fails/"+kind, d, "Write of a %v %s array failed: %v", shape, kind, err)
				continue
			}
			got, err := ty.mk(fn, "/big", nil).Load()
			if err != nil {
				r.Failf("C08/big-load-fails/"+kind, d, "Load of a %v dataset failed: %v", shape, err)
				continue
			}
			if !reflect.DeepEqual(got.Shape(), shape) {
				r.Failf("C08/big-round-trip-shape/"+kind, d, "a %v %s array came back with shape %v", shape, kind, got.Shape())
				continue
			}
			idx := make([]int, len(shape))
			for k := 0; k < n; k++ {
				if g := got.Get(idx); g != vals[k] {
					d["first_wrong_element"] = append([]int{}, idx...)
					r.Failf("C08/big-round-trip-values/"+kind, d, "Write then Load of a %v %s array: element %v is %v, was %v", shape, kind, idx, g, vals[k])
					break
				}
				data.Increment(idx, shape)
			}
		}
	}
	hdf5.FakeReset()
	r.MarkNontrivial()
}

type enum struct{ jobs []job }

func (e *enum) N() int64                     { return int64(len(e.jobs)) }
func (e *enum) Run(i int64, r *vf.Rec)       { e.jobs[i].run(r) }
func (e *enum) Describe(i int64) interface{} { return e.jobs[i].desc }
func (e *enum) CrashSig(i int64, tail string) (string, string) {
	return "C08/crash/" + e.jobs[i].kind, "io crashed the process"
}

func build(tier string) *enum {
	e := &enum{}
	e.jobs = append(e.jobs, jobsFor(typ[float64, data.NDFloat64]{"float64", func(f, d string, s [][]int) Ref[float64, data.NDFloat64] {
		return io.H5RefFloat64{Filename: f, Dataset: d, Slice: s}
	}, data.ArrayFromSliceFloat64}, tier, true)...)
	e.jobs = append(e.jobs, jobsFor(typ[float32, data.NDFloat32]{"float32", func(f, d string, s [][]int) Ref[float32, data.NDFloat32] {
		return io.H5RefFloat32{Filename: f, Dataset: d, Slice: s}
	}, data.ArrayFromSliceFloat32}, tier, false)...)
	e.jobs = append(e.jobs, jobsFor(typ[int32, data.NDInt32]{"int32", func(f, d string, s [][]int) Ref[int32, data.NDInt32] {
		return io.H5RefInt32{Filename: f, Dataset: d, Slice: s}
	}, data.ArrayFromSliceInt32}, tier, true)...)
	e.jobs = append(e.jobs, jobsFor(typ[uint32, data.NDUint32]{"uint32", func(f, d string, s [][]int) Ref[uint32, data.NDUint32] {
		return io.H5RefUint32{Filename: f, Dataset: d, Slice: s}
	}, data.ArrayFromSliceUint32}, tier, false)...)
	e.jobs = append(e.jobs, jobsFor(typ[int64, data.NDInt64]{"int64", func(f, d string, s [][]int) Ref[int64, data.NDInt64] {
		return io.H5RefInt64{Filename: f, Dataset: d, Slice: s}
	}, data.ArrayFromSliceInt64}, tier, false)...)
	e.jobs = append(e.jobs, jobsFor(typ[uint64, data.NDUint64]{"uint64", func(f, d string, s [][]int) Ref[uint64, data.NDUint64] {
		return io.H5RefUint64{Filename: f, Dataset: d, Slice: s}
	}, data.ArrayFromSliceUint64}, tier, false)...)
	e.jobs = append(e.jobs, jobsFor(typ[int, data.NDInt]{"int", func(f, d string, s [][]int) Ref[int, data.NDInt] {
		return io.H5RefInt{Filename: f, Dataset: d, Slice: s}
	}, data.ArrayFromSliceInt}, tier, false)...)
	e.jobs = append(e.jobs, lockJobs(tier)...)
	e.jobs = append(e.jobs, jobsFor(typ[uint, data.NDUint]{"uint", func(f, d string, s [][]int) Ref[uint, data.NDUint] {
		return io.H5RefUint{Filename: f, Dataset: d, Slice: s}
	}, data.ArrayFromSliceUint}, tier, false)...)
	return e
}

func Spec() *vf.Check {
	return &vf.Check{
		ID: "C08", Level: "model_checking", BlockSize: 1, HangSeconds: 3600,
		Rule: "(a) every selection [start,stop,step] with start in 0..n+1, stop in 0..n+2, step in 1..4 and nil, for extents 1..6, for [3,4] and a reduced product for [2,3,4], loaded through the real H5Ref code and compared with the in-memory Slice (empty selections: only 'no panic'); " +
			"(b) explicit-state search over histories of Create / Write (contiguous, column, stepped, reshaped sources) / WriteSlice on two dataset paths (one nested in a group) and two shapes to depth 3 (thorough 4), 8 element types, states keyed by the content of the file; after every history Exists/Load/Shape/strided Load/GetDatasets/GetGroups and the whole file tree are compared with a map model; " +
			"(c) lock discipline: 2 or 3 concurrent callers with 1-2 operations each from {Load, Load(selection), LoadText, Shape, Exists, Write, WriteSlice, Create, Write(other dataset)} on one file: every interleaving that departs at most 2 (thorough 3) times from the default schedule under the controlled scheduler (scheduling points at every lock operation and at every library call made without the lock); at every fake-HDF5 call the caller must hold the package lock (write mode for create/truncate/write/open-for-write calls) and no write-class call may overlap another thread's call; every execution's results and final file content must equal those of some sequential order of the operations (all merge orders computed up front); -race build.",
		Assumptions: []string{"HDF5 is replaced by the in-memory stand-in fakehdf5 (documented hyperslab semantics; raw transfer in the dataset's type); the real library is not in the image", "WriteSlice blocks that do not fit the dataset are not enumerated (undefined by the statement; the repository ignores the library's error there)"},
		Build:       func(tier string) vf.Enumeration { return build(tier) },
		Finish: func(tier string, m *vf.Merged, cov map[string]interface{}) {
			cov["states"] = m.Counters["history_states"]
			cov["transitions"] = m.Counters["history_transitions"]
			cov["traces_validated_against_impl"] = m.Counters["history_transitions"] + m.Counters["selections"] + m.Counters["lock_schedules"]
			cov["states"] = m.Counters["history_states"] + m.Counters["lock_scheduling_points"]
			cov["transitions"] = m.Counters["history_transitions"] + m.Counters["lock_scheduling_points"]
			cov["evaluations"] = m.Counters["selections"] + m.Counters["history_transitions"] + m.Counters["lock_schedules"]
			cov["distinct_nontrivial"] = m.Counters["selection_loads"] + m.Counters["history_states"] + m.Counters["lock_scenarios"] // non-empty selections loaded and compared (each on two datasets), distinct file states, lock scenarios
			if m.Counters["lock_part_skipped_build_not_instrumented"] > 0 {
				cov["exhaustive"] = false
			}
		},
	}
}
