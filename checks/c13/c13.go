// Package c13: the Storage (reservoir) model closes its water balance and respects its release rules.
package c13

import (
	"fmt"
	"math"
	"strings"

	"owverif.local/verif/gridx"
	"owverif.local/verif/tables"
	"owverif.local/verif/vf"
)

type cfg struct {
	name                                string
	dt                                  float64
	levels, vols, areas, minRel, maxRel []float64
	// nonMonotone: the tank's residence time is comparable to the sub-step floor, so within one step the volume can
	// overshoot its end value; the volumes traversed are then only bounded by the step's cumulative fluxes
	nonMonotone bool
}

func interp(v float64, xs, ys []float64) float64 {
	n := len(xs)
	if v <= xs[0] {
		return ys[0]
	}
	if v >= xs[n-1] {
		return ys[n-1]
	}
	for i := 0; i+1 < n; i++ {
		if v >= xs[i] && v <= xs[i+1] {
			return ys[i] + (v-xs[i])/(xs[i+1]-xs[i])*(ys[i+1]-ys[i])
		}
	}
	return math.NaN()
}

func configs() []cfg {
	var out []cfg
	type lva struct {
		n       string
		l, v, a []float64
	}
	lvas := []lva{
		{"n=2", []float64{0, 10}, []float64{0, 2e6}, []float64{0, 4e5}},
		{"n=3-convex", []float64{0, 5, 10}, []float64{0, 1e6, 3e6}, []float64{0, 1e5, 4e5}},
		{"n=4-concave", []float64{0, 2, 6, 10}, []float64{0, 5e5, 1e6, 3e6}, []float64{0, 3e5, 3.8e5, 4e5}},
		{"n=4-short-top-segment", []float64{0, 5, 9.5, 10}, []float64{0, 1e6, 2.9e6, 3e6}, []float64{0, 2e5, 3.9e5, 4e5}},
		// the table starts above empty (volumes below the first point use the first point's values)
		{"n=3-first-point-above-empty", []float64{2, 5, 10}, []float64{5e5, 1e6, 3e6}, []float64{0, 1e5, 4e5}},
	}
	// a long table (20 points on a parabola): a lookup that treats long tables differently must still find the segment
	{
		t := lva{n: "n=20-parabola"}
		for i := 0; i < 20; i++ {
			h := 10 * float64(i) / 19
			t.l, t.v, t.a = append(t.l, h), append(t.v, 3e6*h*h/100), append(t.a, 4e5*h/10)
		}
		lvas = append(lvas, t)
	}
	for _, t := range lvas {
		n := len(t.v)
		rels := map[string][2][]float64{}
		zero := make([]float64, n)
		constMax := make([]float64, n)
		incMax := make([]float64, n)
		spillMin := make([]float64, n)
		for i := 1; i < n; i++ {
			constMax[i] = 20
			incMax[i] = 80 * float64(i) / float64(n-1)
		}
		spillMin[n-1] = 50
		spillMax := append([]float64{}, incMax...)
		rels["release-zero"] = [2][]float64{zero, zero}
		rels["max-constant"] = [2][]float64{zero, constMax}
		rels["max-increasing"] = [2][]float64{zero, incMax}
		rels["spillway"] = [2][]float64{spillMin, spillMax}
		rels["uncontrolled-outlet"] = [2][]float64{incMax, incMax} // the release follows the volume
		for _, rn := range []string{"release-zero", "max-constant", "max-increasing", "spillway", "uncontrolled-outlet"} {
			for _, dt := range []float64{86400, 3600} {
				out = append(out, cfg{fmt.Sprintf("%s/%s/dt=%g", t.n, rn, dt), dt, t.l, t.v, t.a, rels[rn][0], rels[rn][1], false})
			}
		}
	}
	// a small tank with a steep outlet and timesteps that are not a multiple of the kernel's minimum sub-step (6 s):
	// a demand far above the inflow over-draws it within one step, so the sub-step controller halves down to its floor
	for _, dt := range []float64{10, 1000, 86400} {
		out = append(out, cfg{fmt.Sprintf("n=2-small-tank/steep-max/dt=%g", dt), dt, []float64{0, 10}, []float64{0, 1000}, []float64{0, 100}, []float64{0, 0}, []float64{0, 150}, true})
	}
	// a flat-bottomed tank: area > 0 at zero volume (monotone, but evaporation can exceed the water available)
	for _, dt := range []float64{86400, 3600} {
		out = append(out, cfg{fmt.Sprintf("n=2-flat-bottom/release-zero/dt=%g", dt), dt, []float64{0, 10}, []float64{0, 1e6}, []float64{1e5, 1e5}, []float64{0, 0}, []float64{0, 0}, false})
	}
	return out
}

func oracle(cf cfg) func(c *gridx.Case, r *vf.Rec) {
	top := cf.vols[len(cf.vols)-1]
	return func(c *gridx.Case, r *vf.Rec) {
		res := c.Run()
		prev := res.Init[0]
		nontrivial := false
		for t := 0; t < c.T; t++ {
			rain, pet, inflow, demand := c.Inputs[0][t], c.Inputs[1][t], c.Inputs[2][t], c.Inputs[3][t]
			V, Q, rv, ev := res.Out[0][t], res.Out[1][t], res.Out[2][t], res.Out[3][t]
			d := map[string]interface{}{"t": t, "config": cf.name, "rain_mm": rain, "pet_mm": pet, "inflow": inflow, "demand": demand, "volume_before": prev, "volume": V, "outflow": Q,
				"rainfallVolume": rv, "evaporationVolume": ev, "volumes": res.Out[0], "outflows": res.Out[1]}
			for _, x := range []float64{V, Q, rv, ev} {
				if math.IsNaN(x) || math.IsInf(x, 0) {
					r.Failf("C13/non-finite-output", d, "Storage %s t=%d: non-finite output", cf.name, t)
					return
				}
			}
			if V < 0 {
				r.Failf("C13/negative-volume", d, "Storage %s t=%d: volume %g", cf.name, t, V)
				return
			}
			// water balance with the reported atmospheric volumes
			lhs := V - prev
			rhs := (inflow-Q)*cf.dt + (rv-ev)*cf.dt
			scale := math.Max(math.Max(V, prev), math.Max(inflow, Q)*cf.dt)
			if math.Abs(lhs-rhs) > 1e-9*scale+1e-6 {
				kind := "no-atmospheric-flux"
				if rain > 0 || pet > 0 {
					kind = "with-rain-or-evaporation"
				}
				r.Failf("C13/water-balance-not-closed/"+kind, d, "Storage %s t=%d: volume change %g != (inflow %g - outflow %g)*dt + (rainfallVolume %g - evaporationVolume %g)*dt = %g", cf.name, t, lhs, inflow, Q, rv, ev, rhs)
				return
			}
			// atmospheric volumes: rain/pet depth over an area between the areas traversed
			lo, hi := math.Min(prev, V), math.Max(prev, V)
			if cf.nonMonotone {
				lo, hi = math.Max(0, math.Min(lo, prev-(Q+ev)*cf.dt)), math.Max(hi, prev+(inflow+rv)*cf.dt)
			}
			aLo, aHi := interp(lo, cf.vols, cf.areas), interp(hi, cf.vols, cf.areas)
			if hi > top {
				aHi = cf.areas[len(cf.areas)-1]
			}
			for _, x := range [][3]interface{}{{"rainfallVolume", rv, rain}, {"evaporationVolume", ev, pet}} {
				name, got, depth := x[0].(string), x[1].(float64), x[2].(float64)
				wlo, whi := depth*1e-3*aLo/cf.dt, depth*1e-3*aHi/cf.dt
				if got < wlo*(1-1e-3)-1e-12 || got > whi*(1+1e-3)+1e-12 { // 0.1% slack: the kernel evaluates the area at trial mid-volumes
					r.Failf("C13/"+name+"-not-depth-times-area", d, "Storage %s t=%d: %s %g not within depth*area/dt over the areas traversed [%g,%g]", cf.name, t, name, got, wlo, whi)
					return
				}
			}
			// release rules
			minLo := interp(lo, cf.vols, cf.minRel)
			maxHi, maxLo, minHi := interp(hi, cf.vols, cf.maxRel), interp(lo, cf.vols, cf.maxRel), interp(hi, cf.vols, cf.minRel)
			rtol := 1e-4*math.Max(Q, 1) + 1e-3 // the controller's own release-rate tolerances (1e-5 relative, 1e-4 absolute) with a safety factor: sub-steps may overshoot an equilibrium volume
			overTop := hi >= top*(1-1e-12)
			upper := math.Max(maxHi, minHi)
			if Q < minLo-rtol && !(lo <= 0) {
				r.Failf("C13/release-below-minimum-curve", d, "Storage %s t=%d: outflow %g below the minimum release %g", cf.name, t, Q, minLo)
				return
			}
			if Q > upper+rtol && !overTop {
				r.Failf("C13/release-above-maximum-curve-without-spill", d, "Storage %s t=%d: outflow %g above the maximum release %g although volume stayed below full supply %g", cf.name, t, Q, upper, top)
				return
			}
			if !overTop && demand >= minHi && demand <= maxLo && math.Abs(Q-demand) > 1e-6*math.Max(demand, 1) {
				r.Failf("C13/release-not-demand", d, "Storage %s t=%d: demand %g lies between the release curves at both ends of the step but outflow is %g", cf.name, t, demand, Q)
				return
			}
			if Q > 0 || V != prev {
				nontrivial = true
			}
			prev = V
		}
		// final level and area
		st := res.States
		wl, wa := interp(st[0], cf.vols, cf.levels), interp(st[0], cf.vols, cf.areas)
		if math.Abs(st[0]-prev) > 0 || math.Abs(st[1]-wl) > 1e-9*math.Max(1, wl) || math.Abs(st[2]-wa) > 1e-9*math.Max(1, wa) {
			r.Failf("C13/final-level-area-not-table-values", map[string]interface{}{"config": cf.name, "final_states": st, "want_level": wl, "want_area": wa, "last_volume_output": prev}, "Storage %s: final states %v, table gives level %g area %g", cf.name, st, wl, wa)
			return
		}
		if nontrivial {
			r.MarkNontrivial()
		}
	}
}

func spaces(tier string) []*gridx.Space {
	T := 3
	if tier == "thorough" {
		T = 4
	}
	letters := [][]float64{{0, 0, 0, 0, 0, 0}, {20, 0, 0, 0, 0, 0}, {0, 8, 0, 0, 0, 0}, {0, 0, 200, 0, 0, 0}, {0, 0, 2, 1, 0, 0}, {0, 8, 2, 50, 0, 0}, {20, 0, 200, 50, 0, 0}, {0, 0, 0, 50, 0, 0}, {0, 0, 200, 1, 2e5, 6e5}, {0, 0, 2, 1, 5e5, 1e6}}
	var out []*gridx.Space
	for _, cf := range configs() {
		cf := cf
		top := cf.vols[len(cf.vols)-1]
		p := tables.StorageParams(cf.dt, cf.levels, cf.vols, cf.areas, cf.minRel, cf.maxRel)
		inits := [][]float64{{0, 0, 0}, {top * 0.4, 0, 0}, {top * 0.9, 0, 0}, {top, 0, 0}, {top * 1.25, 0, 0}} // the last one: a hot start from a surcharged store
		out = append(out, &gridx.Space{Name: "Storage/" + cf.name, Model: "Storage", Params: [][]float64{p}, PNames: []string{cf.name}, Letters: letters, T: T, Inits: inits, Oracle: oracle(cf)})
		// long periodic series (years of daily steps): every word of length 1..2 over 4 letters repeated 512 times
		if cf.dt == 86400 && (strings.HasSuffix(cf.name, "uncontrolled-outlet/dt=86400") || strings.HasPrefix(cf.name, "n=2-small-tank") || (tier == "thorough" && strings.Contains(cf.name, "spillway"))) {
			long := [][]float64{{0, 0, 0, 0, 0, 0}, {0, 0, 200, 0, 0, 0}, {2, 8, 20, 1, 0, 0}, {0, 8, 0, 50, 0, 0}}
			out = append(out, &gridx.Space{Name: "Storage-long/" + cf.name, Model: "Storage", Params: [][]float64{p}, PNames: []string{cf.name}, Letters: long, T: 2, MinT: 1, Repeat: 512,
				Inits: [][]float64{{top * 0.4, 0, 0}}, Oracle: oracle(cf), SecondPassEvery: -1})
		}
	}
	return out
}

func Spec() *vf.Check {
	return &vf.Check{
		ID: "C13", Level: "exploration", BlockSize: 64,
		Rule: "Storage x 5 level-volume-area tables (2, 3 convex, 4 concave, 4 with a short top segment, 3 starting at a volume above empty; area 0 at the first point) x 5 release-curve families (zero, constant max, increasing max, spillway, uncontrolled outlet min=max) x dt {86400,3600} (plus a 1000 m3 tank with a steep outlet at dt 10, 1000, 86400 s) x initial volume {empty, 40%, 90%, full, 125% (surcharged hot start)} x every word of length T over 10 (rain,PET,inflow,demand,targetMinimumVolume,targetMinimumCapacity) letters (filling to spill and drawing down to empty occur); plus long periodic series: every word of length 1..2 over 4 letters repeated 512 times (512 / 1024 daily steps) for the uncontrolled-outlet tables (thorough: spillway tables too); " +
			"per step: balance with the reported rainfall/evaporation volumes, those volumes = depth x area over the areas traversed, V>=0, outflow within the release curves over the volumes traversed, = demand when admissible at both ends, excess only above full supply; final level/area = table values. distinct_nontrivial = words that move water.",
		Assumptions:   []string{"tables are physically consistent: zero area and zero release at (and below) the first table point (a reservoir cannot release or evaporate from nothing)", "within one step the volume moves monotonically (constant forcing) up to the sub-step controller's tolerance, so curve values at the step's end volumes bound the release within 1e-4 relative + 1e-3 m3/s", "lattice values only"},
		Build:         func(tier string) vf.Enumeration { return gridx.NewEnum("C13", spaces(tier)) },
		QuickDeadline: 0,
	}
}
