package c01

import (
	"fmt"

	"github.com/flowmatters/openwater-core/data"
	"owverif.local/verif/vf"
)

func vectors(minLen, maxLen, lo, hi int) [][]int {
	var out [][]int
	for n := minLen; n <= maxLen; n++ {
		k := hi - lo + 1
		total := int(vf.Pow(k, n))
		for i := 0; i < total; i++ {
			w := vf.Word(int64(i), k, n)
			for j := range w {
				w[j] += lo
			}
			out = append(out, w)
		}
	}
	return out
}

// helpersPre checks the integer index helpers over ALL vectors of length 1..4 (entries 1..4; 0..4 with ties for Argmax/Maximum).
func helpersPre(tier string, r *vf.Rec) {
	n := int64(0)
	// every slice a helper returned is kept and compared again at the very end: a result belongs to the caller and
	// must not change when the helper is called again (with the same or another rank)
	type kept struct {
		what      string
		got, want []int
	}
	var keep []kept
	defer func() {
		for _, k := range keep {
			if fmt.Sprint(k.got) != fmt.Sprint(k.want) {
				r.Failf("C02/helper/result-changed-by-later-calls", map[string]interface{}{"call": k.what, "now": k.got, "was": k.want}, "the slice returned by %s now holds %v; it was %v when returned", k.what, k.got, k.want)
				return
			}
		}
		r.Count("helper_results_rechecked_after_all_calls", int64(len(keep)))
	}()
	for _, dims := range vectors(1, 4, 1, 4) {
		n++
		p := 1
		for _, d := range dims {
			p *= d
		}
		if got := data.Product(dims); got != p {
			r.Failf("C02/helper/Product", map[string]interface{}{"dims": dims, "got": got}, "Product(%v) = %d, want %d", dims, got, p)
			return
		}
		off := data.Offsets(dims)
		keep = append(keep, kept{fmt.Sprintf("Offsets(%v)", dims), off, append([]int{}, off...)})
		for i := range dims {
			w := 1
			for j := i + 1; j < len(dims); j++ {
				w *= dims[j]
			}
			if off[i] != w {
				r.Failf("C02/helper/Offsets", map[string]interface{}{"dims": dims, "got": off}, "Offsets(%v) = %v: element %d should be %d", dims, off, i, w)
				return
			}
		}
		// Increment visits the index space in row-major order and wraps; IDivMod is its inverse
		idx := make([]int, len(dims))
		for k := 0; k < p; k++ {
			want := make([]int, len(dims))
			rem := k
			for d := len(dims) - 1; d >= 0; d-- {
				want[d] = rem % dims[d]
				rem /= dims[d]
			}
			if fmt.Sprint(idx) != fmt.Sprint(want) {
				r.Failf("C02/helper/Increment", map[string]interface{}{"dims": dims, "k": k, "got": idx, "want": want}, "after %d Increments over %v the index is %v, want %v", k, dims, idx, want)
				return
			}
			got := data.IDivMod(k, off, dims)
			if fmt.Sprint(got) != fmt.Sprint(want) {
				r.Failf("C02/helper/IDivMod", map[string]interface{}{"dims": dims, "k": k, "got": got, "want": want}, "IDivMod(%d, Offsets(%v), %v) = %v, want %v", k, dims, dims, got, want)
				return
			}
			keep = append(keep, kept{fmt.Sprintf("IDivMod(%d, Offsets(%v), %v)", k, dims, dims), got, want})
			data.Increment(idx, dims)
		}
		for _, x := range idx {
			if x != 0 {
				r.Failf("C02/helper/Increment-wrap", map[string]interface{}{"dims": dims, "got": idx}, "Increment over %v does not wrap to zero after the last index: %v", dims, idx)
				return
			}
		}
	}
	vs := vectors(1, 4, 0, 4)
	for _, v := range vs {
		n++
		best, arg := v[0], 0
		for i, x := range v {
			if x > best {
				best, arg = x, i
			}
		}
		if got := data.Maximum(v); got != best {
			r.Failf("C02/helper/Maximum", map[string]interface{}{"vector": v, "got": got}, "Maximum(%v) = %d", v, got)
			return
		}
		if got := data.Argmax(v); got != arg {
			r.Failf("C02/helper/Argmax", map[string]interface{}{"vector": v, "got": got, "want": arg}, "Argmax(%v) = %d, the least index of the maximum is %d", v, got, arg)
			return
		}
	}
	// Multiply over all pairs of equal length (length <= 3)
	for _, a := range vectors(1, 3, 0, 3) {
		for _, b := range vectors(len(a), len(a), 0, 3) {
			n++
			got := data.Multiply(a, b)
			keep = append(keep, kept{fmt.Sprintf("Multiply(%v,%v)", a, b), got, append([]int{}, got...)})
			for i := range a {
				if got[i] != a[i]*b[i] {
					r.Failf("C02/helper/Multiply", map[string]interface{}{"a": a, "b": b, "got": got}, "Multiply(%v,%v) = %v", a, b, got)
					return
				}
			}
		}
	}
	r.Count("helper_vectors_checked", n)
}
