package c01

// C03 (b): every catalogued model through the exported C entry point RunSingleModel of a freshly built
// libopenwater.so, on caller buffers placed against PROT_NONE guard pages, compared bit-for-bit with the
// same run through the Go API.

import (
	"bufio"
	"bytes"
	"fmt"
	"math"
	"os"
	"os/exec"
	"path/filepath"
	"strconv"
	"strings"

	"github.com/flowmatters/openwater-core/data"
	"github.com/flowmatters/openwater-core/sim"
	"owverif.local/verif/tables"
	"owverif.local/verif/vf"
)

type abiCfg struct {
	cells, psets, isets, T int
	init                   int // 0: caller-supplied states, 1: initStates with a states buffer, 2: initStates with states == NULL
	slack                  int
	mode                   int // 0: buffer end on the guard page, 1: buffer start on the guard page
}

func (c abiCfg) String() string {
	return fmt.Sprintf("cells=%d paramsets=%d inputsets=%d T=%d init=%d outslack=%d guard=%d", c.cells, c.psets, c.isets, c.T, c.init, c.slack, c.mode)
}

type abiCase struct {
	cfg                 abiCfg
	header              string
	in, pa, st          []float64
	wantOut, wantStates []float64
	nOut                int
}

func abiConfigs(tier string) []abiCfg {
	cells := []int{1, 3}
	Ts := []int{1, 5}
	if tier == "thorough" {
		cells = []int{1, 2, 3}
		Ts = []int{1, 2, 5}
	}
	var out []abiCfg
	for _, c := range cells {
		sets := []int{1}
		if c > 1 {
			sets = append(sets, c)
		}
		if c == 3 && tier == "thorough" {
			sets = append(sets, 2)
		}
		sets = append(sets, c+1) // more sets than cells: the surplus is never used, but it fixes the stride of the buffer
		for _, p := range sets {
			for _, i := range sets {
				for _, T := range Ts {
					for init := 0; init <= 2; init++ {
						for slack := 0; slack <= 1; slack++ {
							for mode := 0; mode <= 1; mode++ {
								if tier == "quick" && slack == 1 && mode == 1 {
									continue
								}
								out = append(out, abiCfg{c, p, i, T, init, slack, mode})
							}
						}
					}
				}
			}
		}
	}
	// hundreds of cells through the entry point (a block size of 64 ... 512 cells must not change which parameter / input
	// set a cell gets): 300 and 600 cells with 3 parameter sets and 5 input sets (neither divides a power of two)
	many := []int{300}
	if tier == "thorough" {
		many = []int{300, 600, 1300}
	}
	for _, c := range many {
		for init := 0; init <= 1; init++ {
			out = append(out, abiCfg{c, 3, 5, 2, init, 0, 0})
		}
	}
	return out
}

func flat(a data.NDFloat64) []float64 {
	shape := a.Shape()
	n := data.Product(shape)
	out := make([]float64, 0, n)
	idx := make([]int, len(shape))
	for k := 0; k < n; k++ {
		out = append(out, a.Get(idx))
		data.Increment(idx, shape)
	}
	return out
}

func buildAbiCase(t tables.Table, group []int, c abiCfg) abiCase {
	model := t.Model
	desc := sim.Catalog[model]().Description()
	ni, no := len(desc.Inputs), len(desc.Outputs)
	cellParams := func(col int) []float64 { return t.Params[group[col%len(group)]] }
	maxN := 0
	for k := 0; k < c.psets; k++ {
		if n := tables.TableLen(model, cellParams(k)); n > maxN {
			maxN = n
		}
	}
	cols := make([][]float64, c.psets)
	for k := range cols {
		cols[k] = tables.Repack(model, cellParams(k), maxN)
	}
	np := len(cols[0])
	params := data.NewArray2DFloat64(np, c.psets)
	for k := range cols {
		for i, v := range cols[k] {
			params.Set2(i, k, v)
		}
	}
	inputs := data.NewArray3DFloat64(c.isets, ni, c.T)
	for b := 0; b < c.isets; b++ {
		for tt := 0; tt < c.T; tt++ {
			l := (b*5 + tt*3 + 2) % len(t.Letters)
			for i := 0; i < ni; i++ {
				inputs.Set3(b, i, tt, t.Letters[l][i])
			}
		}
	}
	m := sim.Catalog[model]()
	if dims := m.FindDimensions(params); len(dims) > 0 {
		m.InitialiseDimensions(dims)
	}
	m.ApplyParameters(params)
	states := m.InitialiseStates(c.cells)
	ns := states.Len(1)
	ac := abiCase{cfg: c}
	ac.in, ac.pa = flat(inputs), flat(params)
	stBuf := make([]float64, c.cells*ns)
	if c.init == 0 {
		// caller-supplied: a recognisable perturbation would be invalid for models with structured states, so
		// the caller passes the model's own initial states
		copy(stBuf, flat(states))
	} else {
		for i := range stBuf {
			stBuf[i] = -123.5 // must be overwritten by the copy-back
		}
	}
	ac.st = stBuf
	outputs := data.NewArray3DFloat64(c.cells+c.slack, no+c.slack, c.T+c.slack)
	m.Run(inputs, states, outputs)
	ac.wantOut = flat(outputs)
	ac.nOut = len(ac.wantOut)
	switch c.init {
	case 0, 1:
		ac.wantStates = flat(states)
	case 2:
		ac.wantStates = stBuf // untouched (not even passed)
	}
	statesNull := 0
	if c.init == 2 {
		statesNull = 1
	}
	initStates := 0
	if c.init >= 1 {
		initStates = 1
	}
	ac.header = fmt.Sprintf("%s %d %d %d %d %d %d %d %d %d %d %d %d %d", model, c.isets, ni, c.T, np, c.psets, c.cells, ns, statesNull, initStates, c.cells+c.slack, no+c.slack, c.T+c.slack, c.mode)
	return ac
}

func hexvals(b *bytes.Buffer, v []float64) {
	for _, x := range v {
		fmt.Fprintf(b, " %016x", math.Float64bits(x))
	}
	b.WriteByte('\n')
}

type abiResult struct {
	out, states, inputs, params []uint64
	canaries                    string
	done                        bool
	began                       bool
}

func parseVals(fields []string) []uint64 {
	out := make([]uint64, 0, len(fields))
	for _, f := range fields {
		v, _ := strconv.ParseUint(f, 16, 64)
		out = append(out, v)
	}
	return out
}

func sameU(a []uint64, b []float64) bool {
	if len(a) != len(b) {
		return false
	}
	for i := range a {
		if a[i] != math.Float64bits(b[i]) {
			return false
		}
	}
	return true
}

func runAbiModel(t tables.Table, tier string, r *vf.Rec) {
	groups, _ := groupsForABI(t)
	cfgs := abiConfigs(tier)
	cases := make([]abiCase, len(cfgs))
	for i, c := range cfgs {
		cases[i] = buildAbiCase(t, groups, c)
	}
	lib := filepath.Join(vf.Root, ".build", "libopenwater.so")
	drv := filepath.Join(vf.Root, ".build", "cabi_driver")
	dir := filepath.Join(vf.Root, ".build", "cabi")
	os.MkdirAll(dir, 0755)
	pending := make([]int, len(cases))
	for i := range pending {
		pending[i] = i
	}
	for len(pending) > 0 {
		var b bytes.Buffer
		for _, i := range pending {
			fmt.Fprintf(&b, "%d %s\n", i, cases[i].header)
			hexvals(&b, cases[i].in)
			hexvals(&b, cases[i].pa)
			hexvals(&b, cases[i].st)
		}
		file := filepath.Join(dir, fmt.Sprintf("%s-%d.txt", t.Model, os.Getpid()))
		os.WriteFile(file, b.Bytes(), 0644)
		cmd := exec.Command(drv, lib, file)
		var stderr bytes.Buffer
		cmd.Stderr = &stderr
		outb, runErr := cmd.Output()
		os.Remove(file)
		res := map[int]*abiResult{}
		var cur *abiResult
		sc := bufio.NewScanner(bytes.NewReader(outb))
		sc.Buffer(make([]byte, 1<<20), 1<<26)
		for sc.Scan() {
			f := strings.Fields(sc.Text())
			if len(f) == 0 {
				continue
			}
			switch f[0] {
			case "BEGIN":
				id, _ := strconv.Atoi(f[1])
				cur = &abiResult{began: true}
				res[id] = cur
			case "OUT":
				cur.out = parseVals(f[2:])
			case "STATES":
				cur.states = parseVals(f[2:])
			case "INPUTS":
				cur.inputs = parseVals(f[2:])
			case "PARAMS":
				cur.params = parseVals(f[2:])
			case "CANARIES":
				cur.canaries = strings.Join(f[1:], " ")
			case "END":
				cur.done = true
			}
		}
		var next []int
		crashed := -1
		for _, i := range pending {
			rr := res[i]
			if rr == nil {
				if crashed >= 0 {
					next = append(next, i) // not reached because an earlier case killed the driver
					continue
				}
				if runErr != nil {
					r.Failf("C03/cabi/"+t.Model+"/driver-failed", map[string]interface{}{"stderr": lastLinesOf(stderr.String(), 8)}, "%s: the C driver failed before case %s: %v", t.Model, cases[i].cfg, runErr)
					return
				}
				continue
			}
			c := cases[i]
			d := map[string]interface{}{"model": t.Model, "config": c.cfg.String()}
			r.Count("cabi_calls", 1)
			if !rr.done {
				crashed = i
				d["stderr"] = lastLinesOf(stderr.String(), 10)
				r.Failf(fmt.Sprintf("C03/cabi/%s/fault-in-RunSingleModel/init=%d", t.Model, c.cfg.init), d, "%s %s: RunSingleModel faulted (guard page hit or panic)", t.Model, c.cfg)
				continue
			}
			switch {
			case rr.canaries != "1 1 1 1":
				r.Failf("C03/cabi/"+t.Model+"/write-outside-caller-buffer", d, "%s %s: canaries (inputs params states outputs) = %s", t.Model, c.cfg, rr.canaries)
			case !sameU(rr.inputs, c.in) || !sameU(rr.params, c.pa):
				r.Failf("C03/cabi/"+t.Model+"/inputs-or-parameters-modified", d, "%s %s: inputs/parameters changed by the call", t.Model, c.cfg)
			case !sameU(rr.out, c.wantOut):
				r.Failf(fmt.Sprintf("C03/cabi/%s/outputs-differ-from-go-api/init=%d", t.Model, c.cfg.init), d, "%s %s: outputs through the C ABI differ from the Go API run", t.Model, c.cfg)
			case !sameU(rr.states, c.wantStates):
				r.Failf(fmt.Sprintf("C03/cabi/%s/states-differ-from-go-api/init=%d", t.Model, c.cfg.init), d, "%s %s: states buffer after the call differs from the Go API run", t.Model, c.cfg)
			}
		}
		pending = next
	}
}

func lastLinesOf(s string, n int) []string {
	ls := strings.Split(strings.TrimSpace(s), "\n")
	for i, l := range ls {
		if strings.HasPrefix(l, "panic:") || strings.HasPrefix(l, "fatal error:") || strings.Contains(l, "unexpected fault") {
			if i+n < len(ls) {
				return ls[i : i+n]
			}
			return ls[i:]
		}
	}
	if len(ls) > n {
		return ls[len(ls)-n:]
	}
	return ls
}

// parameter-vector group used for the columns (homogeneous state lengths for GR4J / Lag)
func groupsForABI(t tables.Table) ([]int, bool) {
	switch t.Model {
	case "GR4J":
		return []int{1, 5}, false
	case "Lag":
		return []int{2}, false
	}
	all := make([]int, len(t.Params))
	for i := range all {
		all[i] = i
	}
	return all, false
}
