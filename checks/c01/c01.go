// Package c01 (also serves C02 and C03a): explicit-state search over array view states.
package c01

import (
	"fmt"

	"owverif.local/verif/seqx"
	"owverif.local/verif/tables"
	"owverif.local/verif/vf"
)

type job struct {
	runner seqx.Runner
	root   []int
	opt    seqx.Options
	abi    *tables.Table // C03(b): one model through the C ABI
	tier   string
}

type enum struct {
	id   string
	jobs []job
}

func (e *enum) N() int64 { return int64(len(e.jobs)) }
func (e *enum) Describe(i int64) interface{} {
	j := e.jobs[i]
	if j.abi != nil {
		return map[string]interface{}{"part": "C ABI", "model": j.abi.Model, "configurations": len(abiConfigs(j.tier))}
	}
	return map[string]interface{}{"element_type": j.runner.Type, "backend": j.runner.Backend, "root_shape": j.root, "max_chain_depth": j.opt.MaxDepth,
		"reshape_transitions": j.opt.Reshape, "write_footprints": j.opt.Writes, "write_pairs": j.opt.WritePairs, "two_array_ops": j.opt.BulkPairs}
}
func (e *enum) CrashSig(i int64, tail string) (string, string) {
	j := e.jobs[i]
	if j.abi != nil {
		return "C03/cabi/" + j.abi.Model + "/harness-crash", "the Go-API reference run crashed"
	}
	return fmt.Sprintf("%s/crash/%s-backed", e.id, j.runner.Backend), "array exploration crashed the process (unrecovered fault)"
}
func (e *enum) Run(i int64, r *vf.Rec) {
	j := e.jobs[i]
	if j.abi != nil {
		runAbiModel(*j.abi, j.tier, r)
		r.MarkNontrivial()
		return
	}
	st, fails := j.runner.Run(j.root, j.opt)
	r.Count("states", int64(st.States))
	r.Count("transitions", int64(st.Transitions))
	r.Count("element_reads_compared", st.Reads)
	r.Count("writes_checked", st.Writes)
	r.Count("write_pairs_checked", st.WritePairs)
	r.Count("bulk_ops_checked", st.BulkOps)
	if st.FrontierEmpty {
		r.Count("explorations_reaching_fixpoint", 1)
	} else {
		r.Count("explorations_cut_at_depth_bound", 1)
	}
	r.Note(fmt.Sprintf("%s/%s/%v", j.runner.Type, j.runner.Backend, j.root), fmt.Sprintf("states=%d transitions=%d max_depth=%d frontier_empty=%v unexplored_successor_states=%d per_depth=%v", st.States, st.Transitions, st.MaxDepth, st.FrontierEmpty, st.UnexploredSuccessors, st.StatesPerDepth))
	for _, f := range fails {
		r.Fail(f.Sig, f.What, f.Detail)
	}
	r.MarkNontrivial()
}

type plan struct {
	root  []int
	depth int
	wide  bool
	wd    int // write footprints only for chains shorter than this (0 = all) // long last axis, Coarse enumeration (crosses the size thresholds a fast path may have); float64 and int32 only
}

func jobs(id, tier string) []job {
	var out []job
	var plans []plan
	opt := seqx.Options{Prop: id}
	backends := map[string]bool{"go": true, "c": true}
	switch id {
	case "C01":
		opt.Writes = true
		if tier == "quick" {
			plans = []plan{{[]int{7}, 8, false, 0}, {[]int{3, 4}, 8, false, 0}, {[]int{2, 3, 4}, 8, false, 0}, {[]int{2, 2, 2, 3}, 8, false, 0}, {[]int{4, 5}, 8, false, 0}}
		} else {
			plans = []plan{{[]int{7}, 8, false, 0}, {[]int{3, 4}, 8, false, 0}, {[]int{2, 3, 4}, 8, false, 0}, {[]int{2, 2, 2, 3}, 8, false, 0}, {[]int{10}, 8, false, 0}, {[]int{4, 5}, 8, false, 0}, {[]int{3, 3, 3}, 8, false, 0}}
		}
	case "C02":
		opt.Reshape, opt.BulkPairs, opt.Writes = true, true, true
		if tier == "quick" {
			plans = []plan{{[]int{6}, 2, false, 0}, {[]int{3, 4}, 2, false, 0}, {[]int{2, 3, 2}, 1, false, 0}}
		} else {
			plans = []plan{{[]int{6}, 4, false, 0}, {[]int{3, 4}, 3, false, 0}, {[]int{2, 3, 4}, 2, false, 0}, {[]int{2, 2, 2, 3}, 1, false, 0}}
		}
	case "C03":
		opt.Reshape, opt.BulkPairs, opt.Writes = true, true, true
		backends = map[string]bool{"c": true}
		if tier == "quick" {
			plans = []plan{{[]int{6}, 2, false, 0}, {[]int{3, 4}, 2, false, 0}, {[]int{2, 3, 2}, 1, false, 0}}
		} else {
			plans = []plan{{[]int{6}, 3, false, 0}, {[]int{3, 4}, 2, false, 0}, {[]int{2, 3, 4}, 1, false, 0}, {[]int{2, 2, 2, 3}, 1, false, 0}}
		}
	}
	switch id {
	case "C01":
		if tier == "quick" {
			plans = append(plans, plan{[]int{2, 3, 70}, 0, true, 0}, plan{[]int{3, 40}, 0, true, 0}, plan{[]int{2, 130}, 1, true, 0})
		} else {
			plans = append(plans, plan{[]int{2, 3, 70}, 0, true, 0}, plan{[]int{3, 40}, 1, true, 0}, plan{[]int{2, 2, 35}, 1, true, 0}, plan{[]int{2, 130}, 1, true, 0}) // [2,3,70] to depth 1 is 1680 states x ~5000 writes each: more than one case may take
		}
	default:
		if tier == "quick" {
			plans = append(plans, plan{[]int{2, 2, 35}, 1, true, 1}, plan{[]int{66}, 0, true, 0}, plan{[]int{2, 130}, 1, true, 0}, plan{[]int{1024}, 0, true, 0}, plan{[]int{12, 365}, 0, true, 0}) // [1024] and [12,365] (4380 elements): whole-array operations that work in blocks; [2,2,35]: writes at the root only, reads and bulk observations on every direct slice
		} else {
			plans = append(plans, plan{[]int{2, 2, 35}, 1, true, 1}, plan{[]int{66}, 1, true, 0}, plan{[]int{2, 130}, 1, true, 0}, plan{[]int{3, 4, 40}, 1, true, 1}, plan{[]int{1024}, 0, true, 0}, plan{[]int{12, 365}, 0, true, 0}, plan{[]int{4096}, 0, true, 0})
		}
	}
	for _, p := range plans {
		for _, rn := range seqx.Runners() {
			if !backends[rn.Backend] {
				continue
			}
			if p.wide && rn.Type != "float64" && !(rn.Type == "int32" && tier == "thorough") {
				continue
			}
			o := opt
			o.MaxDepth = p.depth
			o.Coarse = p.wide
			o.WriteDepth = p.wd
			if tier == "thorough" && id == "C01" && len(p.root) <= 2 && rn.Type == "float64" && !p.wide {
				o.WritePairs = true
			}
			if id == "C01" && (rn.Type == "float64" || rn.Type == "int32" || tier == "thorough") {
				o.OpPairs = true
			}
			out = append(out, job{runner: rn, root: p.root, opt: o})
		}
	}
	if id == "C03" {
		for _, t := range tables.All() {
			t := t
			out = append(out, job{abi: &t, tier: tier})
		}
	}
	return out
}

func spec(id, rule string, assumptions []string) *vf.Check {
	return &vf.Check{
		ID: id, Level: "model_checking", BlockSize: 1, Rule: rule, Assumptions: assumptions,
		Build: func(tier string) vf.Enumeration { return &enum{id: id, jobs: jobs(id, tier)} },
		Finish: func(tier string, m *vf.Merged, cov map[string]interface{}) {
			cov["states"] = m.Counters["states"]
			cov["transitions"] = m.Counters["transitions"]
			cov["traces_validated_against_impl"] = m.Counters["states"] // every state is reached by replaying its chain on the real arrays and compared with the model
			cov["frontier_reports"] = m.Notes
			cov["exhaustive_note"] = "exhaustive for every chain of at most max_chain_depth operations; an exploration that reached a fixpoint covers the whole reachable view space"
		},
	}
}

func SpecC01() *vf.Check {
	return spec("C01", "explicit-state BFS over view states: roots [7],[3,4],[2,3,4],[2,2,2,3] (distinct values), 8 element types, Go- and C-backed; transition = every in-bounds Slice(loc,dims,step) with step in {nil,1,2,3} per dimension; states deduplicated by the implementation's private fields; in every state every element is read through every view of the chain, and every Set/SetN/Apply/Apply1/ApplySlice (contiguous, stepped, row-gapped sources)/CopyFrom addressable through the view is applied on a freshly rebuilt chain and the whole storage, the guard zones and every view of the chain are compared with the index-list reference model; write pairs for the small roots (thorough).",
		[]string{"the reference model is a flat store plus explicit offset lists (no stride algebra)", "chains longer than the depth bound are not explored unless the frontier closed (reported per exploration)"})
}

func SpecC02() *vf.Check {
	c := specC02()
	c.Pre = helpersPre
	return c
}

func specC02() *vf.Check {
	return spec("C02", "the C01 state space extended with Reshape transitions (every ordered factorisation into <=4 factors); in every state: every Apply/Apply1/ApplySlice/CopyFrom/Set write as in C01, and Contiguous() vs adjacency of the model offsets, Unroll values and aliasing (Go-backed: alias iff contiguous), ReshapeFast errs iff non-contiguous, Reshape errs iff counts differ, MustReshape panics iff Reshape errs, every same-count Reshape is row-major, Maximum/Minimum, and AddTo/Scale/ApplyFunc1 with the view as destination and contiguous / stepped / row-gapped / self sources, whole storage compared afterwards; integer helpers are checked over all vectors in the pre-step.",
		[]string{"two-array operations exist for 6 of the 8 element types (as generated)", "depth bound as reported"})
}

func SpecC03() *vf.Check {
	return spec("C03", "(a) the C01+C02 exploration (slice and reshape transitions, all reads, all writes, bulk operations) on arrays wrapped around caller-owned memory of the C element type, with guard zones on both sides, against the same reference model that the Go-backed arrays satisfy (C01/C02), i.e. lock-step equivalence through the model; (b) see the cabi part.",
		[]string{"Go-backed arrays are shown equal to the model by C01/C02 on the same operation sequences; equality of the two back-ends follows by transitivity", "out-of-buffer accesses are detected by guard zones of 24 elements on each side (a read further out is not detected here)"})
}
