// Package c09: checked-in generated code is exactly what the generators produce; spec <-> Description.
// Complete enumeration of a finite space: every genny output, every ow-specgen wrapper, every OW-SPEC block.
package c09

import (
	"bytes"
	"fmt"
	"os"
	"os/exec"
	"path/filepath"
	"regexp"
	"sort"
	"strconv"
	"strings"

	_ "github.com/flowmatters/openwater-core/models"
	"github.com/flowmatters/openwater-core/sim"
	"gopkg.in/yaml.v2"
	"owverif.local/verif/vf"
)

const repo = "/repo"

type artefact struct {
	kind   string // genny | wrapper | spec
	rel    string // file (genny, wrapper) relative to the repo root
	source string // template / model file
	model  string
	// filled by the regeneration
	regenerated [][]byte // one per generator run (3 runs for wrappers)
	note        string
}

type state struct {
	arts         []*artefact
	orphans      []string // generated files in the tree that no generator run produced
	fatal        string
	allInOneRuns int // generator runs over all spec sources at once (both orders)
}

var ws *state

func sh(dir string, env []string, name string, args ...string) (string, error) {
	cmd := exec.Command(name, args...)
	cmd.Dir = dir
	cmd.Env = append(os.Environ(), env...)
	out, err := cmd.CombinedOutput()
	return string(out), err
}

var genRe = regexp.MustCompile(`(?m)^//go:generate\s+genny\s+(.*)$`)
var specRe = regexp.MustCompile(`(?smU)/(\*\s*OW-SPEC)(.*)(\*/)`)

func listGoFiles(root string) []string {
	var out []string
	filepath.Walk(root, func(p string, info os.FileInfo, err error) error {
		if err != nil {
			return nil
		}
		if info.IsDir() && (info.Name() == ".git" || info.Name() == "vendor") {
			return filepath.SkipDir
		}
		if strings.HasSuffix(p, ".go") {
			out = append(out, p)
		}
		return nil
	})
	sort.Strings(out)
	return out
}

// regenerate copies the working tree to a scratch directory, deletes every generated file there, runs the
// project's generators and collects what they produce.
func regenerate() *state {
	st := &state{}
	tmp, err := os.MkdirTemp("", "owverif-c09-")
	if err != nil {
		st.fatal = err.Error()
		return st
	}
	defer os.RemoveAll(tmp)
	if out, err := sh("/", nil, "rsync", "-a", "--exclude", ".git", repo+"/", tmp+"/"); err != nil {
		st.fatal = "rsync: " + out
		return st
	}
	goenv := []string{"GOFLAGS=-mod=mod", "GOPROXY=off", "GOSUMDB=off", "GOTOOLCHAIN=local"}
	bin := filepath.Join(tmp, ".c09bin")
	os.MkdirAll(bin, 0755)
	if out, err := sh(tmp, goenv, "go", "build", "-o", filepath.Join(bin, "genny"), "github.com/joelrahman/genny"); err != nil {
		st.fatal = "building genny: " + out
		return st
	}
	if out, err := sh(tmp, goenv, "go", "build", "-o", filepath.Join(bin, "ow-specgen"), "./pre/ow-specgen"); err != nil {
		st.fatal = "building ow-specgen: " + out
		return st
	}
	// the generated files currently in the tree
	existing := map[string]bool{}
	for _, f := range listGoFiles(tmp) {
		b := filepath.Base(f)
		if strings.HasPrefix(b, "gen-") || strings.HasPrefix(b, "generated_") {
			rel, _ := filepath.Rel(tmp, f)
			existing[rel] = true
			os.Remove(f)
		}
	}
	produced := map[string]*artefact{}
	// genny directives
	for _, f := range listGoFiles(tmp) {
		src, _ := os.ReadFile(f)
		m := genRe.FindSubmatch(src)
		if m == nil {
			continue
		}
		dir, base := filepath.Dir(f), filepath.Base(f)
		line := strings.ReplaceAll(string(m[1]), "$GOFILE", base)
		// split respecting the one quoted argument
		var args []string
		for _, part := range regexp.MustCompile(`"[^"]*"|\S+`).FindAllString(line, -1) {
			args = append(args, strings.Trim(part, `"`))
		}
		relSrc, _ := filepath.Rel(tmp, f)
		rel := filepath.Join(filepath.Dir(relSrc), "gen-"+base)
		a := &artefact{kind: "genny", rel: rel, source: relSrc}
		out, err := sh(dir, append(goenv, "GOFILE="+base, "PATH="+bin+":"+os.Getenv("PATH")), filepath.Join(bin, "genny"), args...)
		if err != nil {
			a.note = "genny failed: " + out
		}
		if b, err := os.ReadFile(filepath.Join(tmp, rel)); err == nil {
			a.regenerated = append(a.regenerated, b)
		}
		produced[rel] = a
		st.arts = append(st.arts, a)
	}
	// ow-specgen for every model source with a spec block, three times (map iteration order inside the generator)
	var specSources []string
	for _, f := range listGoFiles(filepath.Join(tmp, "models")) {
		if strings.HasPrefix(filepath.Base(f), "generated_") {
			continue
		}
		src, _ := os.ReadFile(f)
		if !specRe.Match(src) {
			continue
		}
		relSrc, _ := filepath.Rel(tmp, f)
		specSources = append(specSources, relSrc)
		// which files a generator run writes is found by looking at the directory before and after (not by reading
		// the generator's messages, whose wording is not part of any contract)
		var mine []string
		for run := 0; run < 3; run++ {
			before := map[string]bool{}
			for _, g := range listGoFiles(filepath.Dir(f)) {
				before[g] = true
			}
			out, err := sh(tmp, goenv, filepath.Join(bin, "ow-specgen"), "./"+relSrc)
			if run == 0 {
				for _, g := range listGoFiles(filepath.Dir(f)) {
					if !before[g] && strings.HasPrefix(filepath.Base(g), "generated_") {
						rel, _ := filepath.Rel(tmp, g)
						mine = append(mine, rel)
					}
				}
			}
			for _, rel := range mine {
				a := produced[rel]
				if a == nil {
					a = &artefact{kind: "wrapper", rel: rel, source: relSrc, model: strings.TrimSuffix(strings.TrimPrefix(filepath.Base(rel), "generated_"), ".go")}
					produced[rel] = a
					st.arts = append(st.arts, a)
				}
				if err != nil {
					a.note = "ow-specgen failed: " + out
				}
				if b, e := os.ReadFile(filepath.Join(tmp, rel)); e == nil {
					a.regenerated = append(a.regenerated, b)
				}
			}
		}
	}
	// the generator takes any number of sources: one run over all of them, in both orders, must give the same files
	// (nothing may be carried from one model to the next inside a generator process)
	if len(specSources) > 1 {
		for _, rev := range []bool{false, true} {
			args := []string{}
			for i := range specSources {
				if rev {
					args = append(args, "./"+specSources[len(specSources)-1-i])
				} else {
					args = append(args, "./"+specSources[i])
				}
			}
			out, err := sh(tmp, goenv, filepath.Join(bin, "ow-specgen"), args...)
			for _, a := range st.arts {
				if a.kind != "wrapper" {
					continue
				}
				if err != nil {
					a.note = "ow-specgen (one run over all sources) failed: " + out
				}
				if b, e := os.ReadFile(filepath.Join(tmp, a.rel)); e == nil {
					a.regenerated = append(a.regenerated, b)
				}
			}
			st.allInOneRuns++
		}
	}
	for rel := range existing {
		if produced[rel] == nil {
			st.orphans = append(st.orphans, rel)
		}
	}
	sort.Strings(st.orphans)
	sort.Slice(st.arts, func(i, j int) bool { return st.arts[i].rel < st.arts[j].rel })
	// one spec artefact per model for the Description comparison
	for _, a := range append([]*artefact{}, st.arts...) {
		if a.kind == "wrapper" {
			st.arts = append(st.arts, &artefact{kind: "spec", rel: a.source, source: a.source, model: a.model})
		}
	}
	return st
}

// ---------------------------------------------------------------------------------------------
// independent reading of an OW-SPEC block

type specParam struct {
	name   string
	def    float64
	lo, hi float64
	dims   []string
}

type specModel struct {
	params                  []specParam
	inputs, states, outputs []string
	dimensions              map[string]bool
}

var rangeRe = regexp.MustCompile(`^\s*\[\s*([+-]?(?:[0-9]*\.)?[0-9]+)\s*,\s*([+-]?(?:[0-9]*\.)?[0-9]+)\s*\]`)
var defaultRe = regexp.MustCompile(`,\s*default=([+-]?(?:[0-9]*\.)?[0-9]+)`)

func keys(ms yaml.MapSlice) []string {
	var out []string
	for _, it := range ms {
		out = append(out, fmt.Sprint(it.Key))
	}
	return out
}

func readSpecs(file string) (map[string]*specModel, error) {
	src, err := os.ReadFile(file)
	if err != nil {
		return nil, err
	}
	out := map[string]*specModel{}
	for _, m := range specRe.FindAllSubmatch(src, -1) {
		body := bytes.ReplaceAll(m[2], []byte("\t"), []byte("  "))
		var doc yaml.MapSlice
		if err := yaml.Unmarshal(body, &doc); err != nil {
			return nil, err
		}
		for _, top := range doc {
			name := fmt.Sprint(top.Key)
			sm := &specModel{dimensions: map[string]bool{}}
			fields, _ := top.Value.(yaml.MapSlice)
			for _, f := range fields {
				sub, _ := f.Value.(yaml.MapSlice)
				switch fmt.Sprint(f.Key) {
				case "inputs":
					sm.inputs = keys(sub)
				case "states":
					sm.states = keys(sub)
				case "outputs":
					sm.outputs = keys(sub)
				case "parameters":
					for _, p := range sub {
						key := fmt.Sprint(p.Key)
						sp := specParam{name: key}
						if i := strings.IndexByte(key, '['); i >= 0 {
							sp.name = key[:i]
							for _, d := range strings.Split(strings.TrimSuffix(key[i+1:], "]"), ",") {
								sp.dims = append(sp.dims, strings.TrimSpace(d))
								sm.dimensions[strings.TrimSpace(d)] = true
							}
						}
						txt := ""
						if p.Value != nil {
							txt = fmt.Sprint(p.Value)
						}
						if r := rangeRe.FindStringSubmatch(txt); r != nil {
							sp.lo, _ = strconv.ParseFloat(r[1], 64)
							sp.hi, _ = strconv.ParseFloat(r[2], 64)
						}
						if d := defaultRe.FindStringSubmatch(txt); d != nil {
							sp.def, _ = strconv.ParseFloat(d[1], 64)
						}
						sm.params = append(sm.params, sp)
					}
				}
			}
			out[name] = sm
		}
	}
	return out, nil
}

func sameStrings(a, b []string) bool {
	if len(a) != len(b) {
		return false
	}
	for i := range a {
		if a[i] != b[i] {
			return false
		}
	}
	return true
}

// ---------------------------------------------------------------------------------------------

type enum struct{ st *state }

func (e *enum) N() int64 { return int64(len(e.st.arts)) }
func (e *enum) Describe(i int64) interface{} {
	a := e.st.arts[i]
	return map[string]interface{}{"kind": a.kind, "file": a.rel, "source": a.source, "model": a.model}
}
func (e *enum) CrashSig(i int64, tail string) (string, string) {
	return "C09/crash/" + e.st.arts[i].rel, "comparison crashed"
}

func (e *enum) Run(i int64, r *vf.Rec) {
	a := e.st.arts[i]
	switch a.kind {
	case "genny", "wrapper":
		cur, err := os.ReadFile(filepath.Join(repo, a.rel))
		d := map[string]interface{}{"file": a.rel, "generated_from": a.source}
		if a.note != "" {
			d["generator_output"] = a.note
			r.Failf("C09/generator-failed/"+a.rel, d, "%s: %s", a.rel, a.note)
			return
		}
		if len(a.regenerated) == 0 {
			r.Failf("C09/generator-produces-no-file/"+a.rel, d, "%s: the generator run on %s produced no such file", a.rel, a.source)
			return
		}
		if err != nil {
			r.Failf("C09/generated-file-missing-from-tree/"+a.rel, d, "%s is produced by the generators from %s but is not in the tree", a.rel, a.source)
			return
		}
		for k, g := range a.regenerated {
			if !bytes.Equal(g, cur) {
				line := 1
				for j := 0; j < len(g) && j < len(cur) && g[j] == cur[j]; j++ {
					if g[j] == '\n' {
						line++
					}
				}
				d["first_differing_line"], d["generator_run"] = line, k
				r.Failf("C09/generated-file-differs-from-generator-output/"+a.rel, d, "%s differs from the output of the generator on %s (first difference at line %d, run %d)", a.rel, a.source, line, k)
				return
			}
		}
		r.Count("generator_runs_compared", int64(len(a.regenerated)))
		r.MarkNontrivial()
	case "spec":
		specs, err := readSpecs(filepath.Join(repo, a.source))
		if err != nil {
			r.Failf("C09/spec-unreadable/"+a.model, nil, "%s: %v", a.source, err)
			return
		}
		sm := specs[a.model]
		if sm == nil {
			r.Failf("C09/spec-block-not-found/"+a.model, nil, "no OW-SPEC block for %s in %s", a.model, a.source)
			return
		}
		f := sim.Catalog[a.model]
		if f == nil {
			r.Failf("C09/model-not-registered/"+a.model, nil, "%s has an OW-SPEC block in %s but is not in sim.Catalog", a.model, a.source)
			return
		}
		desc := f().Description()
		d := map[string]interface{}{"model": a.model, "description": fmt.Sprintf("%+v", desc)}
		if !sameStrings(desc.Inputs, sm.inputs) || !sameStrings(desc.States, sm.states) || !sameStrings(desc.Outputs, sm.outputs) {
			r.Failf("C09/description-variables-differ-from-spec/"+a.model, d, "%s: Description inputs/states/outputs %v/%v/%v, spec %v/%v/%v", a.model, desc.Inputs, desc.States, desc.Outputs, sm.inputs, sm.states, sm.outputs)
			return
		}
		if len(desc.Parameters) != len(sm.params) {
			r.Failf("C09/description-parameters-differ-from-spec/"+a.model, d, "%s: %d parameters described, %d in the spec", a.model, len(desc.Parameters), len(sm.params))
			return
		}
		for k, p := range sm.params {
			g := desc.Parameters[k]
			if g.Name != p.name || g.Default != p.def || g.Range[0] != p.lo || g.Range[1] != p.hi || !sameStrings(g.Dimensions, p.dims) {
				r.Failf("C09/description-parameters-differ-from-spec/"+a.model, d, "%s parameter %d: described %s default=%g range=%v dims=%v; spec %s default=%g range=[%g %g] dims=%v", a.model, k, g.Name, g.Default, g.Range, g.Dimensions, p.name, p.def, p.lo, p.hi, p.dims)
				return
			}
		}
		got := map[string]bool{}
		for _, dn := range desc.Dimensions {
			got[dn] = true
		}
		if len(got) != len(sm.dimensions) {
			r.Failf("C09/description-dimensions-differ-from-spec/"+a.model, d, "%s: dimensions %v, spec %v", a.model, desc.Dimensions, sm.dimensions)
			return
		}
		r.MarkNontrivial()
	}
}

func Spec() *vf.Check {
	return &vf.Check{
		ID: "C09", Level: "exploration", BlockSize: 1 << 20, // a single worker: the regeneration is done once
		Rule: "complete enumeration of the generated artefacts: the working tree is copied to a scratch directory, every gen-*.go / generated_*.go is deleted there, genny (module cache) and pre/ow-specgen (built from the tree) are run for every //go:generate directive and every OW-SPEC source (ow-specgen three times each, plus one run over all sources at once in ascending and in descending order), and every produced file is compared byte-for-byte with the checked-in one; generated files in the tree that no generator run produces are orphans; " +
			"every OW-SPEC block is parsed independently (yaml) and compared with the live sim.Catalog Description (registration, parameters in order with default, range, dimensions; inputs, states, outputs in order). distinct_nontrivial = artefacts that match.",
		Assumptions: []string{"says nothing about the generators' behaviour on templates/specs that are not in the tree"},
		Build: func(tier string) vf.Enumeration {
			if ws == nil {
				ws = regenerate()
			}
			return &enum{st: ws}
		},
		Pre: func(tier string, r *vf.Rec) {
			if ws == nil {
				ws = regenerate()
			}
			if ws.fatal != "" {
				r.Failf("C09/cannot-run-generators", nil, "%s", ws.fatal)
			}
			for _, o := range ws.orphans {
				r.Failf("C09/orphan-generated-file/"+o, map[string]interface{}{"file": o}, "%s is in the tree but no generator produces it", o)
			}
			n := 0
			for _, a := range ws.arts {
				if a.kind != "spec" {
					n++
				}
			}
			r.Count("generated_files", int64(n))
			// every catalogued model must come from a spec block
			have := map[string]bool{}
			for _, a := range ws.arts {
				if a.kind == "spec" {
					have[a.model] = true
				}
			}
			for name := range sim.Catalog {
				if !have[name] {
					r.Failf("C09/catalogued-model-without-spec/"+name, nil, "%s is registered in sim.Catalog but no OW-SPEC block generates it", name)
				}
			}
		},
		Finish: func(tier string, m *vf.Merged, cov map[string]interface{}) {
			cov["programs"] = m.Counters["generated_files"]
		},
	}
}
