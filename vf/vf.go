// Package vf is the shared core of the /verif checks: the sharded, crash-tolerant bounded-exhaustive
// enumerator (supervisor + worker subprocesses), evidence writer, known-findings handling and replay.
package vf

import (
	"bufio"
	"bytes"
	"crypto/sha1"
	"encoding/hex"
	"encoding/json"
	"flag"
	"fmt"
	"io"
	"math"
	"os"
	"os/exec"
	"path/filepath"
	"reflect"
	"runtime"
	"sort"
	"strconv"
	"strings"
	"sync"
	"syscall"
	"time"
	"unsafe"
)

// Stdout is where verdict lines and the worker protocol go (a check may redirect os.Stdout to silence the code under test).
var Stdout io.Writer = os.Stdout

// Root is the /verif directory (cwd of every check).
var Root = "/verif"

// Enumeration is a finite, indexable space of cases. Case i must be a pure function of (tier, i).
type Enumeration interface {
	N() int64
	// Run executes case i on the real code and reports through r.
	Run(i int64, r *Rec)
	// Describe returns a JSON-able, human readable description of case i (for samples and replays).
	Describe(i int64) interface{}
	// CrashSig is the failure signature used when the worker process dies while running case i.
	CrashSig(i int64, stderrTail string) (sig string, what string)
}

// Check is one property check.
type Check struct {
	ID          string
	Level       string // evidence level
	Rule        string
	Assumptions []string
	// Build returns the enumeration for a tier. Called in supervisor and in every worker.
	Build func(tier string) Enumeration
	// BlockSize: number of consecutive case indices handed to one worker at a time.
	BlockSize int64
	// Finish lets the check add keys to coverage / adjust evidence after merging (optional).
	Finish func(tier string, m *Merged, cov map[string]interface{})
	// Pre runs once in the supervisor before the enumeration (optional); may report failures.
	Pre func(tier string, r *Rec)
	// Sub handles check-specific sub-commands (raw arguments after the id); returns true when handled.
	Sub func(args []string) bool
	// HangSeconds: a worker whose case index has not changed for this long is killed (0 = default 600).
	HangSeconds int
	// Deadline for the whole enumeration (0 = default per tier).
	QuickDeadline, ThoroughDeadline time.Duration
}

// Failure is one failing case.
type Failure struct {
	Sig    string      `json:"sig"`
	What   string      `json:"what"`
	Case   int64       `json:"case"`
	Detail interface{} `json:"detail,omitempty"`
}

// Rec collects what a run of cases observed.
type Rec struct {
	Counters   map[string]int64
	Fails      map[string]*FailAgg
	Nontrivial int64
	Evals      int64
	cur        int64
	states     map[uint64]struct{}
	Notes      map[string]string
}

type FailAgg struct {
	Sig   string  `json:"sig"`
	Count int64   `json:"count"`
	First Failure `json:"first"`
}

func NewRec() *Rec {
	return &Rec{Counters: map[string]int64{}, Fails: map[string]*FailAgg{}, states: map[uint64]struct{}{}, Notes: map[string]string{}}
}

func (r *Rec) Count(key string, n int64) { r.Counters[key] += n }
func (r *Rec) MarkNontrivial()           { r.Nontrivial++ }
func (r *Rec) Note(k, v string)          { r.Notes[k] = v }

// State records a distinct-state hash (kept per process; merged as a set by the supervisor only
// when small, see Merged.States).
func (r *Rec) State(h uint64) { r.states[h] = struct{}{} }

// Fail records a failing case under a stable signature.
func (r *Rec) Fail(sig, what string, detail interface{}) {
	a := r.Fails[sig]
	if a == nil {
		a = &FailAgg{Sig: sig, First: Failure{Sig: sig, What: what, Case: r.cur, Detail: Sanitize(detail)}}
		r.Fails[sig] = a
	}
	a.Count++
}

// Sanitize makes a value JSON-encodable: non-finite floats become strings.
func Sanitize(v interface{}) interface{} {
	rv := reflect.ValueOf(v)
	switch rv.Kind() {
	case reflect.Float64, reflect.Float32:
		f := rv.Float()
		if math.IsNaN(f) || math.IsInf(f, 0) {
			return fmt.Sprint(f)
		}
		return f
	case reflect.Map:
		out := map[string]interface{}{}
		for _, k := range rv.MapKeys() {
			out[fmt.Sprint(k.Interface())] = Sanitize(rv.MapIndex(k).Interface())
		}
		return out
	case reflect.Slice, reflect.Array:
		if rv.Kind() == reflect.Slice && rv.IsNil() {
			return nil
		}
		out := make([]interface{}, rv.Len())
		for i := range out {
			out[i] = Sanitize(rv.Index(i).Interface())
		}
		return out
	case reflect.Ptr, reflect.Interface:
		if rv.IsNil() {
			return nil
		}
		return Sanitize(rv.Elem().Interface())
	}
	return v
}

// Failf is Fail with a formatted description.
func (r *Rec) Failf(sig string, detail interface{}, format string, a ...interface{}) {
	r.Fail(sig, fmt.Sprintf(format, a...), detail)
}

type wire struct {
	Block      int64               `json:"block"`
	Counters   map[string]int64    `json:"counters"`
	Fails      map[string]*FailAgg `json:"fails"`
	Nontrivial int64               `json:"nontrivial"`
	Evals      int64               `json:"evals"`
	States     []uint64            `json:"states,omitempty"`
	Notes      map[string]string   `json:"notes,omitempty"`
	Done       bool                `json:"done,omitempty"`
}

// Merged is the supervisor's view after all workers have finished.
type Merged struct {
	Rec
	States      map[uint64]struct{}
	Crashes     int64
	Timeouts    int64
	Exhaustive  bool
	CasesTotal  int64
	CasesRun    int64
	DeadlineHit bool
}

func (m *Merged) merge(w *wire) {
	for k, v := range w.Counters {
		m.Counters[k] += v
	}
	for k, v := range w.Notes {
		m.Notes[k] = v
	}
	for k, v := range w.Fails {
		a := m.Fails[k]
		if a == nil {
			c := *v
			m.Fails[k] = &c
		} else {
			a.Count += v.Count
			if v.First.Case < a.First.Case {
				a.First = v.First
			}
		}
	}
	m.Nontrivial += w.Nontrivial
	m.Evals += w.Evals
	for _, s := range w.States {
		m.States[s] = struct{}{}
	}
}

// ---------------------------------------------------------------------------------------------
// command line

type Opts struct {
	Tier    string
	Seed    int64
	Worker  bool
	Shard   int
	NShards int
	Prog    string
	Skip    string
	Replay  string
	Case    int64
	Workers int
}

func ParseOpts(args []string) Opts {
	fs := flag.NewFlagSet("check", flag.ExitOnError)
	var o Opts
	fs.StringVar(&o.Tier, "tier", envOr("VERIF_TIER", "quick"), "quick|thorough")
	fs.Int64Var(&o.Seed, "seed", envInt("VERIF_SEED", 0), "seed (unused: nothing is random)")
	fs.BoolVar(&o.Worker, "worker", false, "internal: run as worker")
	fs.IntVar(&o.Shard, "shard", 0, "internal")
	fs.IntVar(&o.NShards, "nshards", 1, "internal")
	fs.StringVar(&o.Prog, "progress", "", "internal: progress file")
	fs.StringVar(&o.Skip, "skip", "", "internal: case indices to skip")
	fs.StringVar(&o.Replay, "replay", "", "replay file")
	fs.Int64Var(&o.Case, "case", -1, "run a single case index in-process")
	fs.IntVar(&o.Workers, "workers", 0, "number of worker processes (default: cores)")
	fs.Parse(args)
	if o.Tier != "quick" && o.Tier != "thorough" {
		fmt.Fprintln(os.Stderr, "bad tier", o.Tier)
		os.Exit(2)
	}
	return o
}

func envOr(k, d string) string {
	if v := os.Getenv(k); v != "" {
		return v
	}
	return d
}
func envInt(k string, d int64) int64 {
	if v := os.Getenv(k); v != "" {
		if n, err := strconv.ParseInt(v, 10, 64); err == nil {
			return n
		}
	}
	return d
}

// Main runs check c with the given command-line arguments and exits.
func Main(c *Check, args []string) {
	// the code under test may print on stdout (diagnostics of a kernel): keep the verdict lines and the worker
	// protocol on the real stdout and send everything else to stderr
	if Stdout == io.Writer(os.Stdout) {
		os.Stdout = os.Stderr
	}
	if c.Sub != nil && c.Sub(args) {
		os.Exit(0)
	}
	o := ParseOpts(args)
	if o.Worker {
		workerMain(c, o)
		return
	}
	if o.Replay != "" {
		os.Exit(replayMain(c, o))
	}
	if o.Case >= 0 {
		e := c.Build(o.Tier)
		r := NewRec()
		r.cur = o.Case
		e.Run(o.Case, r)
		d, _ := json.MarshalIndent(e.Describe(o.Case), "", " ")
		fmt.Fprintf(Stdout, "case %d: %s\n", o.Case, d)
		printRec(r)
		if len(r.Fails) > 0 {
			os.Exit(1)
		}
		os.Exit(0)
	}
	os.Exit(Supervise(c, o))
}

func printRec(r *Rec) {
	for _, k := range sortedKeys(r.Fails) {
		f := r.Fails[k]
		d, _ := json.Marshal(f.First.Detail)
		fmt.Fprintf(Stdout, "FAIL sig=%s n=%d what=%s detail=%s\n", f.Sig, f.Count, f.First.What, d)
	}
	ks := make([]string, 0)
	for k := range r.Counters {
		ks = append(ks, k)
	}
	sort.Strings(ks)
	for _, k := range ks {
		fmt.Fprintf(Stdout, "  %s=%d\n", k, r.Counters[k])
	}
}

func sortedKeys(m map[string]*FailAgg) []string {
	ks := make([]string, 0, len(m))
	for k := range m {
		ks = append(ks, k)
	}
	sort.Strings(ks)
	return ks
}

// ---------------------------------------------------------------------------------------------
// worker

type progress struct {
	f   *os.File
	mem []byte
}

func openProgress(path string, create bool) (*progress, error) {
	fl := os.O_RDWR
	if create {
		fl |= os.O_CREATE | os.O_TRUNC
	}
	f, err := os.OpenFile(path, fl, 0644)
	if err != nil {
		return nil, err
	}
	if create {
		if err := f.Truncate(16); err != nil {
			return nil, err
		}
	}
	mem, err := syscall.Mmap(int(f.Fd()), 0, 16, syscall.PROT_READ|syscall.PROT_WRITE, syscall.MAP_SHARED)
	if err != nil {
		return nil, err
	}
	return &progress{f: f, mem: mem}, nil
}
func (p *progress) set(i int64) { *(*int64)(unsafe.Pointer(&p.mem[0])) = i }
func (p *progress) get() int64  { return *(*int64)(unsafe.Pointer(&p.mem[0])) }
func (p *progress) close() {
	syscall.Munmap(p.mem)
	p.f.Close()
}

// workerMain: reads block numbers from stdin (one per line), runs every case of the block, writes one
// JSON line per finished block. The current case index is published through the mmap'd progress file
// so the supervisor can attribute a crash.
func workerMain(c *Check, o Opts) {
	runtime.GOMAXPROCS(1)
	e := c.Build(o.Tier)
	n := e.N()
	bs := c.BlockSize
	if bs <= 0 {
		bs = 1
	}
	var prog *progress
	if o.Prog != "" {
		p, err := openProgress(o.Prog, false)
		if err != nil {
			fmt.Fprintln(os.Stderr, "worker: progress:", err)
			os.Exit(3)
		}
		prog = p
	}
	skip := map[int64]bool{}
	for _, s := range strings.Split(o.Skip, ",") {
		if s == "" {
			continue
		}
		v, _ := strconv.ParseInt(s, 10, 64)
		skip[v] = true
	}
	in := bufio.NewScanner(os.Stdin)
	out := bufio.NewWriter(Stdout)
	for in.Scan() {
		line := strings.TrimSpace(in.Text())
		if line == "" {
			continue
		}
		b, err := strconv.ParseInt(line, 10, 64)
		if err != nil {
			fmt.Fprintln(os.Stderr, "worker: bad block", line)
			os.Exit(3)
		}
		r := NewRec()
		lo, hi := b*bs, (b+1)*bs
		if hi > n {
			hi = n
		}
		for i := lo; i < hi; i++ {
			if skip[i] {
				continue
			}
			if prog != nil {
				prog.set(i)
			}
			r.cur = i
			r.Evals++
			e.Run(i, r)
		}
		if prog != nil {
			prog.set(-1)
		}
		w := wire{Block: b, Counters: r.Counters, Fails: r.Fails, Nontrivial: r.Nontrivial, Evals: r.Evals, Notes: r.Notes}
		if len(r.states) > 0 {
			for s := range r.states {
				w.States = append(w.States, s)
			}
		}
		enc, err := json.Marshal(&w)
		if err != nil {
			fmt.Fprintln(os.Stderr, "worker: cannot encode block result:", err)
			os.Exit(3)
		}
		out.Write(enc)
		out.WriteByte('\n')
		out.Flush()
	}
	os.Exit(0)
}

// ---------------------------------------------------------------------------------------------
// supervisor

const hangSeconds = 600

type tailBuf struct {
	mu  sync.Mutex
	buf []byte
}

func (t *tailBuf) Write(p []byte) (int, error) {
	t.mu.Lock()
	defer t.mu.Unlock()
	t.buf = append(t.buf, p...)
	if len(t.buf) > 8192 {
		t.buf = t.buf[len(t.buf)-8192:]
	}
	return len(p), nil
}
func (t *tailBuf) String() string {
	t.mu.Lock()
	defer t.mu.Unlock()
	return string(t.buf)
}

// RunEnumeration runs all cases of e in worker subprocesses and merges what they report.
func RunEnumeration(c *Check, o Opts, e Enumeration, deadline time.Time) *Merged {
	m := &Merged{Rec: *NewRec(), States: map[uint64]struct{}{}, Exhaustive: true}
	hang := c.HangSeconds
	if hang <= 0 {
		hang = hangSeconds
	}
	if o.Tier != "thorough" && hang > 900 {
		hang = 900 // no single quick case takes this long; a worker that is stuck is reported after 15 minutes, not hours
	}
	n := e.N()
	m.CasesTotal = n
	bs := c.BlockSize
	if bs <= 0 {
		bs = 1
	}
	nblocks := (n + bs - 1) / bs
	nw := o.Workers
	if nw <= 0 {
		nw = runtime.NumCPU()
	}
	if int64(nw) > nblocks {
		nw = int(nblocks)
	}
	if nw < 1 {
		nw = 1
	}
	self, err := os.Executable()
	if err != nil {
		panic(err)
	}
	os.MkdirAll(filepath.Join(Root, ".build", "progress"), 0755)

	var mu sync.Mutex
	next := int64(0)
	takeBlock := func() int64 {
		mu.Lock()
		defer mu.Unlock()
		if time.Now().After(deadline) {
			if next < nblocks {
				m.DeadlineHit = true
				m.Exhaustive = false
			}
			return -1
		}
		if next >= nblocks {
			return -1
		}
		b := next
		next++
		return b
	}
	var wg sync.WaitGroup
	for w := 0; w < nw; w++ {
		wg.Add(1)
		go func(w int) {
			defer wg.Done()
			progPath := filepath.Join(Root, ".build", "progress", fmt.Sprintf("%s-%d-%d", c.ID, os.Getpid(), w))
			prog, err := openProgress(progPath, true)
			if err != nil {
				panic(err)
			}
			defer os.Remove(progPath)
			defer prog.close()
			pending := int64(-1) // block to (re)run first
			skips := []string{}
			for {
				// start a worker process
				prog.set(-1)
				cmd := exec.Command(self, c.ID, "--worker", "--tier", o.Tier, "--progress", progPath, "--skip", strings.Join(skips, ","))
				cmd.Env = append(os.Environ(), "GOMAXPROCS=1")
				stdin, _ := cmd.StdinPipe()
				stdout, _ := cmd.StdoutPipe()
				tail := &tailBuf{}
				cmd.Stderr = tail
				if err := cmd.Start(); err != nil {
					panic(err)
				}
				rd := bufio.NewReaderSize(stdout, 1<<20)
				crashed := false
				for {
					b := pending
					if b < 0 {
						b = takeBlock()
					}
					if b < 0 {
						break
					}
					pending = b
					fmt.Fprintf(stdin, "%d\n", b)
					// wait for the block result with a hang watchdog
					type res struct {
						line []byte
						err  error
					}
					ch := make(chan res, 1)
					go func() {
						line, err := rd.ReadBytes('\n')
						ch <- res{line, err}
					}()
					var rr res
					lastIdx, lastChange := prog.get(), time.Now()
				wait:
					for {
						select {
						case rr = <-ch:
							break wait
						case <-time.After(2 * time.Second):
							cur := prog.get()
							if cur != lastIdx {
								lastIdx, lastChange = cur, time.Now()
							} else if time.Since(lastChange) > time.Duration(hang)*time.Second {
								cmd.Process.Kill()
								rr = <-ch
								rr.err = fmt.Errorf("hang")
								break wait
							}
						}
					}
					if rr.err != nil {
						// worker died (or was killed) inside block b
						cmd.Wait()
						idx := prog.get()
						mu.Lock()
						if rr.err.Error() == "hang" {
							m.Timeouts++
							m.Exhaustive = false
							m.Counters["cases_skipped_after_"+strconv.Itoa(hang)+"s_without_progress"]++
						} else if idx >= 0 {
							m.Crashes++
							sig, what := e.CrashSig(idx, tail.String())
							m.Rec.cur = idx
							m.Rec.Fail(sig, what, map[string]interface{}{"case": e.Describe(idx), "stderr_tail": lastLines(tail.String(), 12)})
						} else {
							mu.Unlock()
							fmt.Fprintf(os.Stderr, "worker for %s died outside a case:\n%s\n", c.ID, tail.String())
							os.Exit(2)
						}
						mu.Unlock()
						if idx >= 0 {
							skips = append(skips, strconv.FormatInt(idx, 10))
						}
						crashed = true
						break
					}
					var wr wire
					if err := json.Unmarshal(rr.line, &wr); err != nil {
						fmt.Fprintf(os.Stderr, "bad worker output: %v\n%s\n", err, rr.line)
						os.Exit(2)
					}
					mu.Lock()
					m.merge(&wr)
					mu.Unlock()
					pending = -1
				}
				if !crashed {
					stdin.Close()
					cmd.Wait()
					return
				}
			}
		}(w)
	}
	wg.Wait()
	m.CasesRun = m.Evals
	return m
}

func lastLines(s string, n int) []string {
	ls := strings.Split(strings.TrimRight(s, "\n"), "\n")
	if len(ls) > n {
		// keep the first lines of the panic, they carry the message
		idx := -1
		for i, l := range ls {
			if strings.HasPrefix(l, "panic:") || strings.HasPrefix(l, "fatal error:") {
				idx = i
				break
			}
		}
		if idx >= 0 {
			end := idx + n
			if end > len(ls) {
				end = len(ls)
			}
			return ls[idx:end]
		}
		return ls[len(ls)-n:]
	}
	return ls
}

// Supervise runs the whole check and returns the process exit code.
func Supervise(c *Check, o Opts) int {
	t0 := time.Now()
	dl := c.QuickDeadline
	if o.Tier == "thorough" {
		dl = c.ThoroughDeadline
	}
	if dl == 0 {
		if o.Tier == "thorough" {
			dl = 40 * time.Minute
		} else {
			dl = 8 * time.Minute
		}
	}
	e := c.Build(o.Tier)
	pre := NewRec()
	pre.cur = -1
	if c.Pre != nil {
		c.Pre(o.Tier, pre)
	}
	m := RunEnumeration(c, o, e, t0.Add(dl))
	for k, v := range pre.Counters {
		m.Counters[k] += v
	}
	for k, v := range pre.Fails {
		if m.Fails[k] == nil {
			m.Fails[k] = v
		} else {
			m.Fails[k].Count += v.Count
		}
	}
	for k, v := range pre.Notes {
		m.Notes[k] = v
	}
	m.Nontrivial += pre.Nontrivial

	// samples: first, middle, last case
	samples := []interface{}{}
	if n := e.N(); n > 0 {
		for _, i := range []int64{0, n / 2, n - 1} {
			samples = append(samples, map[string]interface{}{"case": i, "desc": e.Describe(i)})
		}
	}
	cov := map[string]interface{}{
		"evaluations":         m.Evals,
		"distinct_nontrivial": m.Nontrivial,
		"rule":                c.Rule,
		"samples":             samples,
		"exhaustive":          m.Exhaustive,
		"cases_total":         m.CasesTotal,
		"cases_run":           m.CasesRun,
		"worker_crashes":      m.Crashes,
		"deadline_hit":        m.DeadlineHit,
		"counters":            m.Counters,
	}
	if len(m.Notes) > 0 {
		cov["notes"] = m.Notes
	}
	if len(m.States) > 0 {
		cov["states"] = len(m.States)
	}
	if c.Finish != nil {
		c.Finish(o.Tier, m, cov)
	}
	// the schema's counts are non-negative integers: a derived count that went negative is a bookkeeping slip of the
	// check, reported in the evidence rather than written as such
	for _, k := range []string{"evaluations", "distinct_nontrivial", "states", "transitions", "traces_validated_against_impl"} {
		if v, ok := cov[k]; ok {
			if n, isInt := asInt64(v); isInt && n < 0 {
				cov[k] = int64(0)
				cov["bookkeeping_note"] = fmt.Sprintf("%s was computed as %d and is reported as 0", k, n)
			}
		}
	}
	return Conclude(c.ID, c.Level, o, cov, c.Assumptions, m.Fails, t0, func(f *FailAgg) interface{} {
		return map[string]interface{}{"case_index": f.First.Case, "case": safeDescribe(e, f.First.Case), "detail": f.First.Detail}
	})
}

func asInt64(v interface{}) (int64, bool) {
	switch x := v.(type) {
	case int:
		return int64(x), true
	case int64:
		return x, true
	case int32:
		return int64(x), true
	}
	return 0, false
}

func safeDescribe(e Enumeration, i int64) interface{} {
	if i < 0 || i >= e.N() {
		return nil
	}
	return e.Describe(i)
}

// ---------------------------------------------------------------------------------------------
// known findings, verdict, evidence

type KnownLine struct {
	Kind string // known | fixed
	Prop string
	Sig  string
	Text string
}

func LoadKnown() []KnownLine {
	var out []KnownLine
	b, err := os.ReadFile(filepath.Join(Root, "KNOWN_FINDINGS.txt"))
	if err != nil {
		return out
	}
	for _, l := range strings.Split(string(b), "\n") {
		l = strings.TrimSpace(l)
		if l == "" || strings.HasPrefix(l, "#") {
			continue
		}
		var k KnownLine
		if strings.HasPrefix(l, "known:") {
			k.Kind = "known"
			l = strings.TrimSpace(l[len("known:"):])
		} else if strings.HasPrefix(l, "fixed:") {
			k.Kind = "fixed"
			l = strings.TrimSpace(l[len("fixed:"):])
		} else {
			continue
		}
		rest := []string{}
		for _, f := range strings.Fields(l) {
			if strings.HasPrefix(f, "property=") && k.Prop == "" {
				k.Prop = f[len("property="):]
			} else if strings.HasPrefix(f, "sig=") && k.Sig == "" {
				k.Sig = f[len("sig="):]
			} else {
				rest = append(rest, f)
			}
		}
		k.Text = strings.Join(rest, " ")
		out = append(out, k)
	}
	return out
}

// Conclude prints verdict lines, writes replays and the evidence file; returns the exit code.
func Conclude(id, level string, o Opts, cov map[string]interface{}, assumptions []string,
	fails map[string]*FailAgg, t0 time.Time, replayBody func(f *FailAgg) interface{}) int {
	suffix := os.Getenv("VERIF_EVIDENCE_SUFFIX") // a check made of several binaries writes partial evidence files that its script merges
	known := map[string]KnownLine{}
	for _, k := range LoadKnown() {
		if k.Kind == "known" && k.Prop == id {
			known[k.Sig] = k
		}
	}
	violations := 0
	knownHits := []string{}
	failList := []interface{}{}
	os.RemoveAll(filepath.Join(Root, "replays", id+suffix)) // replays belong to the run that wrote them
	os.MkdirAll(filepath.Join(Root, "replays", id+suffix), 0755)
	for _, sig := range sortedKeys(fails) {
		f := fails[sig]
		h := sha1.Sum([]byte(sig))
		rp := filepath.Join("replays", id+suffix, hex.EncodeToString(h[:6])+".json")
		body := map[string]interface{}{"property": id, "tier": o.Tier, "sig": sig, "what": f.First.What, "count": f.Count}
		if replayBody != nil {
			body["replay"] = replayBody(f)
		}
		bb, _ := json.MarshalIndent(body, "", " ")
		os.WriteFile(filepath.Join(Root, rp), append(bb, '\n'), 0644)
		if k, ok := known[sig]; ok {
			fmt.Fprintf(Stdout, "KNOWN-FINDING: property=%s sig=%s %s (cases=%d, replay=%s)\n", id, sig, k.Text, f.Count, rp)
			knownHits = append(knownHits, sig)
		} else {
			violations++
			fmt.Fprintf(Stdout, "VIOLATION property=%s replay=%s sig=%s cases=%d :: %s\n", id, rp, sig, f.Count, f.First.What)
		}
		failList = append(failList, map[string]interface{}{"sig": sig, "cases": f.Count, "what": f.First.What, "known": known[sig].Kind == "known", "replay": rp})
	}
	cov["failing_signatures"] = failList
	cov["known_findings_hit"] = knownHits
	ev := map[string]interface{}{
		"property_id": id,
		"tier":        o.Tier,
		"seed":        o.Seed,
		"level":       level,
		"coverage":    cov,
		"assumptions": assumptions,
		"wall_s":      time.Since(t0).Seconds(),
		"violations":  violations,
	}
	WriteEvidence(id+suffix, ev)
	fmt.Fprintf(Stdout, "%s tier=%s evaluations=%v nontrivial=%v exhaustive=%v violations=%d known=%d wall=%.1fs\n",
		id, o.Tier, cov["evaluations"], cov["distinct_nontrivial"], cov["exhaustive"], violations, len(knownHits), time.Since(t0).Seconds())
	if violations > 0 {
		return 1
	}
	return 0
}

func WriteEvidence(id string, ev map[string]interface{}) {
	os.MkdirAll(filepath.Join(Root, "evidence"), 0755)
	var buf bytes.Buffer
	enc := json.NewEncoder(&buf)
	enc.SetIndent("", " ")
	if err := enc.Encode(ev); err != nil {
		fmt.Fprintln(os.Stderr, "evidence encode:", err)
		os.Exit(2)
	}
	if err := os.WriteFile(filepath.Join(Root, "evidence", id+".json"), buf.Bytes(), 0644); err != nil {
		fmt.Fprintln(os.Stderr, "evidence write:", err)
		os.Exit(2)
	}
}

// replayMain re-executes the case stored in a replay file, in-process-isolated (a subprocess, so a
// crash is reported rather than taking the caller down).
func replayMain(c *Check, o Opts) int {
	b, err := os.ReadFile(o.Replay)
	if err != nil {
		fmt.Fprintln(os.Stderr, err)
		return 2
	}
	var body struct {
		Tier   string `json:"tier"`
		Sig    string `json:"sig"`
		Replay struct {
			CaseIndex int64 `json:"case_index"`
		} `json:"replay"`
	}
	if err := json.Unmarshal(b, &body); err != nil {
		fmt.Fprintln(os.Stderr, err)
		return 2
	}
	self, _ := os.Executable()
	cmd := exec.Command(self, c.ID, "--tier", body.Tier, "--case", strconv.FormatInt(body.Replay.CaseIndex, 10))
	cmd.Stdout, cmd.Stderr = Stdout, os.Stderr
	if err := cmd.Run(); err != nil {
		fmt.Fprintf(Stdout, "replay of %s (sig %s): FAILS again (%v)\n", o.Replay, body.Sig, err)
		return 1
	}
	fmt.Fprintf(Stdout, "replay of %s (sig %s): passes\n", o.Replay, body.Sig)
	return 0
}

// ---------------------------------------------------------------------------------------------
// helpers for enumerations

// Radix decodes i into mixed-radix digits (least significant first = last radix fastest).
func Radix(i int64, radices []int) []int {
	out := make([]int, len(radices))
	for k := len(radices) - 1; k >= 0; k-- {
		out[k] = int(i % int64(radices[k]))
		i /= int64(radices[k])
	}
	return out
}

func RadixN(radices []int) int64 {
	n := int64(1)
	for _, r := range radices {
		n *= int64(r)
	}
	return n
}

// Word decodes w into T letters over an alphabet of size k (first letter most significant).
func Word(w int64, k, T int) []int {
	out := make([]int, T)
	for t := T - 1; t >= 0; t-- {
		out[t] = int(w % int64(k))
		w /= int64(k)
	}
	return out
}

func Pow(k, T int) int64 {
	n := int64(1)
	for i := 0; i < T; i++ {
		n *= int64(k)
	}
	return n
}
