#!/usr/bin/env python3
"""seed_regress.py [filter [start-name]]: applies every kept seeded change (seeded/<id>/patch.diff) to /repo in turn, runs the quick
check of its property (plus the checks recorded as having caught it), expects a VIOLATION, restores /repo.
Prints one line per seed; exit 1 if a seed that applies is no longer caught."""
import json, os, re, subprocess, sys
flt = sys.argv[1] if len(sys.argv) > 1 else ''
start = sys.argv[2] if len(sys.argv) > 2 else ''
bad = 0
for name in sorted(os.listdir('/verif/seeded')):
    d = '/verif/seeded/' + name
    if not os.path.exists(d + '/patch.diff') or flt not in name or name < start:
        continue
    prop = name[:3]
    checks = [prop]
    try:
        meta = json.load(open(d + '/meta.json'))
        for k, v in (meta.get('check_results') or {}).items():
            c = k.split('/')[0]
            if v.get('exit') == 1 and c not in checks:
                checks.append(c)
    except Exception:
        pass
    if subprocess.run(['git', '-C', '/repo', 'status', '--porcelain'], stdout=subprocess.PIPE).stdout.strip():
        print('REFUSING: /repo not clean'); sys.exit(3)
    p = subprocess.run(['git', '-C', '/repo', 'apply', '--3way', d + '/patch.diff'], stdout=subprocess.PIPE, stderr=subprocess.STDOUT)
    if p.returncode != 0:
        subprocess.run(['git', '-C', '/repo', 'checkout', '--', '.']); subprocess.run(['git', '-C', '/repo', 'reset', '-q']); subprocess.run(['git', '-C', '/repo', 'clean', '-fdq'])
        print(name, 'SKIP (does not apply to the current tree)', flush=True); continue
    caught = None
    try:
        for c in checks:
            q = subprocess.run(['./check', c, '--tier', 'quick'], cwd='/verif', stdout=subprocess.PIPE, stderr=subprocess.STDOUT)
            if q.returncode == 1 and b'VIOLATION' in q.stdout:
                caught = c; break
    finally:
        subprocess.run(['git', '-C', '/repo', 'reset', '-q']); subprocess.run(['git', '-C', '/repo', 'checkout', '--', '.']); subprocess.run(['git', '-C', '/repo', 'clean', '-fdq'])
    print(name, 'caught by ' + caught if caught else 'NOT CAUGHT (checks %s)' % checks, flush=True)
    if not caught:
        bad += 1
sys.exit(1 if bad else 0)
