#!/usr/bin/env python3
"""ref_eval.py <prop> <dir-with-patch.diff> : evaluates a behaviour-preserving change (a change under which the
property still holds). The patch is verified in a scratch worktree (applies, builds, baseline tests pass), then applied
to /repo, the relevant checks are run (quick tier) and /repo is restored. Any VIOLATION / non-zero exit is a false
alarm of the machinery (or a change that is not behaviour-preserving after all): reported for triage."""
import json, os, re, subprocess, sys, time
ENV = dict(os.environ, GOFLAGS='-mod=mod', GOPROXY='off', GOSUMDB='off', GOTOOLCHAIN='local')
BUILD = 'go build ./data/... ./sim/... ./models/... ./util/... ./conv/... ./libopenwater/...'
BASE = 'go test -mod=mod -vet=off -count=1 ./data/... ./io/json/... ./util/...'
def sh(cmd, cwd, timeout=1800):
    p = subprocess.run(cmd, shell=True, cwd=cwd, env=ENV, stdout=subprocess.PIPE, stderr=subprocess.STDOUT, timeout=timeout)
    return p.returncode, p.stdout.decode(errors='replace')
def related(prop, files):
    cs = [prop]
    def add(*xs):
        for x in xs:
            if x not in cs: cs.append(x)
    for f in files:
        if f.startswith('data/'): add('C01', 'C02', 'C03', 'C09')
        if f.startswith('models/') or f.startswith('pre/'): add('C09', 'C04', 'C14', 'C06')
        if 'generated_' in f or f.startswith('pre/'): add('C05')
        if f.startswith('io/'): add('C08', 'C09', 'C07')
        if f.startswith('cmd/ow-sim'): add('C07', 'C05')
        if f.startswith('sim/') or f.startswith('libopenwater/'): add('C17', 'C03', 'C04', 'C05', 'C07', 'C14')
        if f.startswith('util/fn'): add('C18', 'C11', 'C13')
        if f.startswith('models/rr'): add('C10', 'C15')
        if f.startswith('models/routing'): add('C11', 'C12')
        if f.startswith('models/storage'): add('C13', 'C12')
        if f.startswith('models/generation') or f.startswith('models/conversion') or f.startswith('models/functions'): add('C16', 'C19')
        if f.startswith('models/climate'): add('C20')
    return cs
def main():
    prop, d = sys.argv[1], sys.argv[2]
    patch = os.path.join(d, 'patch.diff')
    res = {'property': prop, 'source': d}
    wt = '/tmp/refwt_%d' % os.getpid()
    sh('git -C /repo worktree add --detach %s HEAD' % wt, '/')
    try:
        rc, out = sh('git apply %s' % patch, wt)
        if rc != 0:
            rc, out = sh('git apply --3way %s' % patch, wt)
        res['applies'] = rc == 0
        if rc != 0:
            res['error'] = out[-400:]; print(json.dumps(res)); return 1
        rc, out = sh('git diff HEAD --stat', wt); res['diffstat'] = out.strip().splitlines()[-1:] 
        sh('git add -A -N .', wt)
        rc, out = sh('git diff HEAD --name-only', wt); files = out.split()
        res['files'] = files
        rc, out = sh(BUILD, wt); res['builds'] = rc == 0
        if rc != 0: res['error'] = out[-600:]
        rc, out = sh(BASE, wt); res['baseline_passes'] = rc == 0
        sh('git add -A -N . && git diff HEAD > /tmp/ref_rebased_%d.diff' % os.getpid(), wt)
    finally:
        sh('git -C /repo worktree remove --force %s' % wt, '/')
    if not (res.get('builds') and res.get('baseline_passes')):
        print(json.dumps(res)); return 1
    st = subprocess.run(['git', '-C', '/repo', 'status', '--porcelain'], stdout=subprocess.PIPE).stdout.decode().strip()
    if st:
        print('REFUSING: /repo is not clean'); return 3
    res['checks'] = {}
    try:
        subprocess.run(['git', '-C', '/repo', 'apply', '/tmp/ref_rebased_%d.diff' % os.getpid()], check=True)
        for cid in related(prop, files):
            t0 = time.time()
            p = subprocess.run(['./check', cid, '--tier', 'quick'], cwd='/verif', stdout=subprocess.PIPE, stderr=subprocess.STDOUT)
            out = p.stdout.decode(errors='replace')
            viol = [l for l in out.splitlines() if l.startswith('VIOLATION')]
            notes = [l for l in out.splitlines() if l.startswith('NOTE') or l.startswith('MODEL-CONFORMANCE')]
            res['checks'][cid] = {'exit': p.returncode, 'violations': len(viol), 'first': viol[0][:300] if viol else '', 'notes': notes[:2], 'wall_s': round(time.time() - t0, 1),
                                  'tail': out[-300:] if p.returncode not in (0, 1) else ''}
    finally:
        subprocess.run(['git', '-C', '/repo', 'checkout', '--', '.'])
        subprocess.run(['git', '-C', '/repo', 'clean', '-fdq'])
    res['alarms'] = [c for c, v in res['checks'].items() if v['exit'] != 0 or v['violations'] > 0]
    print(json.dumps(res, indent=1))
    return 0
sys.exit(main())
