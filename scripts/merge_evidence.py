#!/usr/bin/env python3
"""merge_evidence.py <id> <suffix> ... : merges evidence/<id><suffix>.json partial files into evidence/<id>.json"""
import json, sys, os
pid = sys.argv[1]
parts = []
for suf in sys.argv[2:]:
    p = '/verif/evidence/%s%s.json' % (pid, suf)
    if os.path.exists(p):
        parts.append((suf, json.load(open(p))))
        os.remove(p)
if not parts:
    sys.exit(0)
base = parts[0][1]
cov = base['coverage']
cov['parts'] = {parts[0][0].lstrip('.'): dict(cov)}
for suf, ev in parts[1:]:
    c = ev['coverage']
    cov['parts'][suf.lstrip('.')] = c
    for k in ('evaluations', 'distinct_nontrivial', 'states', 'transitions', 'traces_validated_against_impl', 'cases_total', 'cases_run'):
        if isinstance(c.get(k), int):
            cov[k] = cov.get(k, 0) + c[k]
    cov['exhaustive'] = bool(cov.get('exhaustive')) and bool(c.get('exhaustive'))
    cov['samples'] = cov.get('samples', []) + c.get('samples', [])
    cov['failing_signatures'] = cov.get('failing_signatures', []) + c.get('failing_signatures', [])
    cov['known_findings_hit'] = cov.get('known_findings_hit', []) + c.get('known_findings_hit', [])
    cov['rule'] = cov.get('rule', '') + ' || ' + c.get('rule', '')
    base['wall_s'] += ev['wall_s']
    base['violations'] += ev.get('violations', 0)
    base['assumptions'] = base.get('assumptions', []) + [a for a in ev.get('assumptions', []) if a not in base.get('assumptions', [])]
json.dump(base, open('/verif/evidence/%s.json' % pid, 'w'), indent=1)
