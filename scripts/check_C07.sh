#!/bin/sh
cd /verif || exit 2
tier=${VERIF_TIER:-quick}; prev=""; for a in "$@"; do [ "$prev" = "--tier" ] && tier=$a; prev=$a; done
./scripts/owsim_build.sh C07; rc=$?
if [ $rc -eq 3 ]; then
  python3 scripts/degraded_evidence.py C07 "$tier" "cmd/ow-sim uses a concurrency construct the instrumentation does not model (select, close, range over a channel, ...); the schedule exploration, the functional family and the TLA+ conformance all run on the instrumented binary"
  exit 0
fi
[ $rc -ne 0 ] && exit 2
export GORACE="exitcode=0 history_size=2"
exec .build/owsim-check-C07 C07 "$@"
