#!/bin/sh
cd /verif || exit 2
./scripts/owsim_build.sh C07 || exit 2
export GORACE="exitcode=0 history_size=2"
exec .build/owsim-check-C07 C07 "$@"
