#!/bin/sh
# C05 = (Run part: owcheck built -race against the rewritten wrappers) + (ow-sim part: the real cmd/ow-sim under the scheduler)
cd /verif || exit 2
for a in "$@"; do case "$a" in --replay|--case|--worker) SINGLE=1;; esac; done
tier=${VERIF_TIER:-quick}; prev=""; for a in "$@"; do [ "$prev" = "--tier" ] && tier=$a; prev=$a; done
./scripts/sched_build.sh C05; rc=$?
if [ $rc -eq 0 ]; then ./scripts/owsim_build.sh C05; rc=$?; fi
if [ $rc -eq 3 ]; then
  python3 scripts/degraded_evidence.py C05 "$tier" "the generated Run wrappers or cmd/ow-sim use a concurrency construct the instrumentation does not model (select, close, range over a channel, ...)"
  exit 0
fi
[ $rc -ne 0 ] && exit 2
export GORACE="exitcode=0 history_size=2"
if [ -n "$SINGLE" ]; then
  case "$*" in *C05.owsim*) exec .build/owsim-check-C05 C05 "$@";; *) exec .build/owcheck-sched-C05 C05 "$@";; esac
fi
VERIF_EVIDENCE_SUFFIX=.run .build/owcheck-sched-C05 C05 "$@"; rc1=$?
VERIF_EVIDENCE_SUFFIX=.owsim .build/owsim-check-C05 C05 "$@"; rc2=$?
python3 scripts/merge_evidence.py C05 .run .owsim
[ $rc1 -gt $rc2 ] && exit $rc1
exit $rc2
