#!/bin/sh
cd /verif || exit 2
./scripts/sched_build.sh C08 || exit 2
export GORACE="exitcode=0 history_size=2"
exec .build/owcheck-sched-C08 C08 "$@"
