#!/bin/sh
cd /verif || exit 2
./scripts/sched_build.sh C08; rc=$?
export GORACE="exitcode=0 history_size=2"
if [ $rc -eq 3 ]; then
  # parts (a) selections and (b) histories do not need the scheduler: run them on the plain build; the lock part
  # reports itself as skipped (exhaustive: false)
  echo "NOTE property=C08 the lock-discipline part is not decided on this tree: it cannot be instrumented (see stderr)"
  . ./scripts/env.sh
  go build -o .build/owcheck-C08 ./cmd/owcheck || exit 2
  exec .build/owcheck-C08 C08 "$@"
fi
[ $rc -ne 0 ] && exit 2
exec .build/owcheck-sched-C08 C08 "$@"
