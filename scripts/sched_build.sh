#!/bin/sh
# Builds .build/owcheck-sched: owcheck compiled with -race against the REWRITTEN working tree of /repo
# (go statements / channels / sync / Sleep / Exit -> vrt), via go build -overlay. /repo is not touched.
cd /verif || exit 2
TAG=${1:-sched}
. ./scripts/env.sh
mkdir -p .build/bin .build/rw/sched-$TAG
cp /repo/go.sum ./go.sum 2>/dev/null
go build -o .build/bin/rewrite-$TAG ./tools/rewrite || exit 2
rm -rf .build/rw/sched-$TAG && mkdir -p .build/rw/sched-$TAG
# every non-test Go file of the packages that may start goroutines or take locks; files in which nothing is rewritten stay as they are
FILES="$(find /repo/models /repo/io /repo/sim /repo/cmd/ow-sim -name '*.go' ! -name '*_test.go' | sort)"
# exit 3 = this tree builds, but it cannot be instrumented (a construct the rewriter does not model): the caller then
# reports "not decided" instead of failing
cannot() { echo "$1" >&2; if go build -o /dev/null ./cmd/owcheck 2>/dev/null; then exit 3; fi; exit 2; }
.build/bin/rewrite-$TAG -skip-unchanged -out .build/rw/sched-$TAG $FILES || cannot "the rewriter cannot model this tree"
go build -ldflags '-X owverif.local/verif/vrt.Instrumented=yes' -race -overlay .build/rw/sched-$TAG/overlay.json -o .build/owcheck-sched-$TAG ./cmd/owcheck || cannot "instrumented build failed"
