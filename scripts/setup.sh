#!/bin/sh
# Build the framework offline from files on disk and pre-warm the build cache.
cd /verif || exit 2
. ./scripts/env.sh
mkdir -p .build .gocache evidence replays
cp /repo/go.sum ./go.sum
go build -o .build/owcheck ./cmd/owcheck || exit 1
echo setup ok
