#!/bin/sh
# Build the framework offline from files on disk and pre-warm the build cache.
cd /verif || exit 2
. ./scripts/env.sh
mkdir -p .build/bin .gocache evidence replays
cp /repo/go.sum ./go.sum
go build -o .build/owcheck ./cmd/owcheck || exit 1
(cd /repo && go build -o /verif/.build/bin/genny github.com/joelrahman/genny) || exit 1
(cd /repo && go build -buildmode=c-shared -o /verif/.build/libopenwater.so ./libopenwater) || exit 1
gcc -O1 -o .build/cabi_driver cabi/driver.c -ldl || exit 1
echo setup: plain builds ok
./scripts/sched_build.sh C05 >/dev/null || exit 1
./scripts/owsim_build.sh C05 >/dev/null || exit 1
echo setup: instrumented builds ok
