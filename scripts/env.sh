export GOFLAGS=-mod=mod GOPROXY=off GOSUMDB=off GOTOOLCHAIN=local
export GOCACHE=/verif/.gocache
export CARGO_NET_OFFLINE=true PIP_NO_INDEX=1
