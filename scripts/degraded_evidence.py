#!/usr/bin/env python3
"""Writes /verif/evidence/<id>.json for a run in which the scheduler-based part of a check could not be built
because the current tree uses a construct the instrumentation cannot model (select, close, range over a channel, ...).
Nothing was explored, so nothing is claimed: level "other", exhaustive false, the reason in the explanation."""
import json, os, sys, time
pid, tier, reason = sys.argv[1], sys.argv[2], sys.argv[3]
ev = {
    "property_id": pid, "tier": tier if tier in ("quick", "thorough") else "quick",
    "seed": int(os.environ.get("VERIF_SEED", "1") or 1), "level": "other", "wall_s": 0.0,
    "coverage": {"explanation": "NOT DECIDED on this tree: " + reason, "evaluations": 0, "distinct_nontrivial": 0, "exhaustive": False,
                 "rule": "the controlled-scheduler exploration needs the rewritten (instrumented) sources; the rewrite or the instrumented build failed while the plain build succeeds",
                 "samples": []},
    "assumptions": ["no verdict: the property was neither confirmed nor refuted by this run"],
    "violations": [],
}
os.makedirs("/verif/evidence", exist_ok=True)
json.dump(ev, open("/verif/evidence/%s.json" % pid, "w"), indent=1)
print("NOTE property=%s not decided on this tree: %s" % (pid, reason))
