#!/usr/bin/env python3
"""Writes /verif/MANIFEST.json from the table below (single source of truth for the interface)."""
import json, os, sys
ROOT = os.path.dirname(os.path.dirname(os.path.abspath(__file__)))
ALL = ["C%02d" % i for i in range(1, 21)]

# id -> dict(level, text, note, technique, design_ref, engine)
CHECKS = {
 "C09": dict(level="exploration", engine="regen",
   text="Complete enumeration of the finite set of generated artefacts: all generated files are deleted in a scratch copy of the working tree, genny and ow-specgen (built from the tree) are re-run for every go:generate directive and every OW-SPEC source (ow-specgen three times), and every produced file is compared byte-for-byte with the checked-in one; orphan generated files and catalogue entries without a spec are reported; every OW-SPEC block is parsed independently and compared with the live Description of the catalogued model.",
   note="About the artefacts in the tree only, not about the generators in general. exhaustive:true means all 47 generated files and all 41 spec blocks were compared.",
   technique="complete enumeration of a finite artefact space (regenerate-and-compare; independent spec parser vs live catalogue)",
   design_ref="2/C09"),
 "C17": dict(level="exploration", engine="seqx",
   text="Structured request alphabet for the 39 scalar-parameter models (parameters none/all/each alone/all+unknown/reversed x inputs all/each missing/all missing/each longer/each shorter/extra/reversed x T x splitOutputs) compared with a direct one-cell run incl. log lines and non-finite encoding; all byte strings of length <=3 over a 15-character JSON alphabet and every single-byte deletion/substitution/truncation of three valid requests (no panic, exactly one JSON document, a description when nothing ran); JsonSafeArray over every depth-1 view of three float64 roots with NaN/Inf planted x every shiftDim.",
   note="Requests whose parameters make the direct run itself crash in the model kernel are outside the statement and skipped (determined in fresh processes, counted). Dimensioned models cannot be configured through the request format.",
   technique="bounded-exhaustive enumeration of a request alphabet / all short byte strings / all single-byte edits, differential oracle (direct run)",
   design_ref="2/C17"),
 "C01": dict(level="model_checking", engine="seqx",
   text="Explicit-state BFS over all array view states reachable by chains of Slice(loc,dims,step) from roots [7],[3,4],[2,3,4],[2,2,2,3] (thorough also [10],[4,5],[3,3,3]), for 8 element types and both back-ends, states deduplicated by the implementation's private fields; the search runs to a FIXPOINT (the frontier empties), so every reachable view of these roots is covered. In every state every element is read through every view of the chain and every addressable write (Set, SetN, Apply, Apply1, ApplySlice with contiguous/stepped/row-gapped sources, CopyFrom; write pairs in thorough) is applied on the real arrays and the whole storage, guard zones and all views are compared with an index-list reference model.",
   note="Reference model = flat store + explicit offset lists, trusted. Root shapes and step values {nil,1,2,3} as stated.",
   technique="explicit-state search (BFS to fixpoint) over view states of the real arrays in lock-step with a reference model",
   design_ref="2/C01"),
 "C02": dict(level="model_checking", engine="seqx",
   text="The C01 search extended with Reshape transitions (every ordered factorisation into <=4 factors), depth-bounded; in every state Contiguous, Unroll (values and aliasing), ReshapeFast/Reshape/MustReshape error behaviour, row-major values of every same-count reshape, Maximum/Minimum and AddTo/Scale/ApplyFunc1 with contiguous/stepped/row-gapped/self sources are compared with the model; the integer helpers are checked over all vectors of length 1..4.",
   note="Depth bound reported per exploration (the reshape closure does not close within it); two-array operations exist for 6 element types.",
   technique="explicit-state search (depth-bounded BFS over slice/reshape chains) on the real arrays in lock-step with a reference model",
   design_ref="2/C02"),
 "C03": dict(level="model_checking", engine="seqx + cabi",
   text="(a) The C01+C02 search (slice and reshape transitions, all reads, all writes, bulk operations) on arrays wrapped around caller-owned memory of the C element type with guard zones, against the same reference model the Go-backed arrays satisfy, i.e. lock-step observational equivalence of the two back-ends through the model, plus out-of-buffer write detection. (b) the C ABI: every catalogued model x cells x parameter sets x input sets x timesteps x initStates through RunSingleModel of a freshly built libopenwater.so with guard pages, compared bit-for-bit with the Go API.",
   note="Guard zones of 24 elements (a) and PROT_NONE pages (b) detect out-of-buffer accesses; equality of back-ends follows by transitivity through the model.",
   technique="explicit-state search over operation sequences on C-backed arrays against the reference model; bounded-exhaustive C ABI grid under guard pages",
   design_ref="2/C03"),
 "C04": dict(level="exploration", engine="gridx",
   text="All 41 models x cells N=1..4 x parameter-set and input-block counts in {1, N, coprime below N} x T x output arrays exact or one larger in every dimension x Go- or C-backed arrays with canaries x model-initialised or caller-filled distinct state rows; per-cell table lengths differ for the dimensioned models. Every cell of the vectorised run is compared bit-for-bit with a fresh single-cell run of its parameter column, input block and state row; inputs/parameters unchanged; slack and canaries untouched.",
   note="Exhaustive over the stated grid. Writes that store an equal value are not observable without the access log. Two recorded findings: InitialiseStates for GR4J/Lag with state lengths growing across cells.",
   technique="bounded-exhaustive enumeration of configurations with a differential oracle (N independent single-cell runs)",
   design_ref="2/C04"),
 "C14": dict(level="model_checking", engine="seqx",
   text="Explicit enumeration of run histories on the real model objects: for 82 probes (41 models x 2 configurations) every history of up to 2 (thorough 3) earlier runs over a 10-operation alphabet (same object same/other configuration, fresh object, a model of each package) followed by the probe, compared bit-for-bit with the probe run first in a fresh process; plus every truncation point and every constant replacement tail for causality.",
   note="History depth and alphabet as stated; the fresh-process baseline is itself computed twice in separate processes.",
   technique="explicit-state search over operation histories (depth-bounded, all sequences) on the real objects with a fresh-process differential oracle",
   design_ref="2/C14"),
 "C18": dict(level="exploration", engine="gridx",
   text="FindRoot: 33 test functions (monotone incl. flat segments, kinks, steep ramp, routing-residual shapes; non-monotone with a bracketed sign change) x derivative kind x initial guess x tolerance x convergence limit x iteration budget, every combination, every evaluation point logged; Piecewise: every strictly increasing knot vector of length 2..5 from a 7-value pool x every y assignment from a 6-value pool x queries at knots, interior points, the floats adjacent to knots, outside, NaN, +-Inf, on contiguous and strided table views.",
   note="Exhaustive over the stated families and lattices; the 'budget suffices for halving' clause is decided with a slope bound (sound), not by running a second bisection.",
   technique="bounded-exhaustive enumeration of a finite family of functions/tables x argument lattice with contract oracles",
   design_ref="2/C18"),
 "C20": dict(level="exploration", engine="gridx",
   text="Dense lattice: dry bulb -40..55 C (step 0.25 quick / 0.05 thorough, plus 0, +-0.001, +-0.01) x 25 humidities in (0,100] x 6 elevations, every point through the real ClimateVariables model; ordering (dew <= wet <= dry), monotonicity (vapour pressure in T, dew point in RH), deltaT identity and finiteness on every point.",
   note="Nothing is claimed between lattice points.",
   technique="bounded-exhaustive enumeration of an input lattice with ordering/monotonicity invariants between neighbouring lattice points",
   design_ref="2/C20"),
 "C12": dict(level="exploration", engine="gridx",
   text="8 constituent models x parameter vectors forcing both branches of each x initial stored masses {0,>0} x every word of length T over alphabets with zero-flow, near-empty and above-bank-full letters; each word is executed as a chain of single-step calls on the real model so that the stored masses before and after every step are observed, and the per-step mass budget, non-negativity and remobilisation bound are checked.",
   note="Exhaustive over the stated lattice; the low-volume flush is the only admitted loss; StorageTrapAll's budget is in its own per-step units.",
   technique="bounded-exhaustive enumeration of input words x parameter vectors x initial stores; per-transition mass-budget invariant on the real code",
   design_ref="2/C12"),
 "C13": dict(level="exploration", engine="gridx",
   text="Storage x 3 LVA tables x 4 release-curve families (+ a flat-bottomed tank) x 2 timesteps x 3 initial volumes x every word of length T over 8 (rain,PET,inflow,demand) letters: per-step balance with the reported atmospheric volumes, V>=0, release within the curves over the volumes traversed, = demand when admissible, spill only above full supply, final level/area = table values.",
   note="Exhaustive over the stated lattice; release bounds are taken with the sub-step controller's own tolerance; one recorded finding (panic when evaporating from an empty flat-bottomed storage).",
   technique="bounded-exhaustive enumeration of input words x table/release-curve configurations; per-transition balance and release-rule invariants",
   design_ref="2/C13"),
 "C06": dict(level="exploration", engine="gridx",
   text="17 stateful models x parameter vectors covering every state-shape variant and branch x every input word of length T over the model's alphabet x every composition of T (all 2^(T-1)-1 split patterns, incl. 1-step segments and multiple splits): concatenated outputs and final states of the split run vs the uninterrupted run on the real model objects.",
   note="Exhaustive over the stated alphabets and horizon; two recorded findings (Sacramento UH buffer, dissolved-nutrient previous volume) are matched by narrow signatures; StorageRouting compared within its solver tolerance.",
   technique="bounded-exhaustive enumeration of input words x all split compositions (history enumeration) with a differential oracle (uninterrupted run)",
   design_ref="2/C06"),
 "C11": dict(level="exploration", engine="gridx",
   text="StorageRouting: stable-region parameter grid x every word over 8 (inflow,lateral,rain,evap) letters with per-step water balance, non-negativity and the S=k*Q^m+dead law within the solver tolerance; Muskingum: (K,X) grid x every event word + zero tail (volume conservation) and steady flows; Lag: lags 0..8 x every word of every length (lags longer than the series included) x zero/pre-filled buffer against a FIFO reference.",
   note="Exhaustive over the stated lattice; net evaporation is only bounded (loosest unit reading).",
   technique="bounded-exhaustive enumeration of input words x parameter grid; per-transition balance invariants and a FIFO reference model",
   design_ref="2/C11"),
 "C10": dict(level="exploration", engine="gridx",
   text="Bounded-exhaustive: parameter grids inside the documented/physical ranges x {no prefix, 30 dry, 30 storm steps} x every (rain,PET) word of length 1..T over a 6-letter alphabet through the real GR4J/Sacramento/Simhyd/Surm/RunoffCoefficient objects; per-step output, component-sum and cumulative-budget invariants, store bounds and a no-water-created budget in every reached state; exact closure for GR4J with X2=0, PET=0.",
   note="Exhaustive over the stated lattice and word length only; Sacramento's unit-hydrograph buffer is not observable and is left out of the stored-water term; GR4J X2>0 imports water by design.",
   technique="bounded-exhaustive enumeration of all input words over a finite alphabet x parameter grid, invariants checked on every transition of the real model",
   design_ref="2/C10"),
 "C15": dict(level="exploration", engine="gridx",
   text="Every (X1,X2,X3,X4) of a lattice covering each unit-hydrograph length n1=1..4, n2=1..8 x two initial store fillings x every (rain,PET) word of length T over 5 letters is run through the real GR4J and compared step by step (runoff) and at the end (S, R, both UH stores) with an independent implementation of Perrin et al. 2003.",
   note="Trusts the harness's reference implementation of the published equations (direct convolution, no shared code); lattice values and word length only.",
   technique="bounded-exhaustive enumeration of input words x parameter lattice against an independent reference model",
   design_ref="2/C15"),
 "C16": dict(level="exploration", engine="gridx",
   text="For each of the ~20 partition/conversion/generation models: full-factorial parameter grid x every word over the product alphabet of input values; the algebraic identity the model names (sum-to-input, identity/sum/mask/linear map with independently recomputed unit factors, total = parts, delivered = generated x ratio, zero driver => zero load, non-negativity) is evaluated on every timestep of the real catalogued model.",
   note="Exhaustive over the stated lattice only; gully fine/coarse split required only while the activity factor is 1.",
   technique="bounded-exhaustive enumeration of parameter lattice x input words, identity oracle per step",
   design_ref="2/C16"),
 "C19": dict(level="model_checking", engine="gridx",
   text="All 146097 states (dates) of the 400-year Gregorian cycle are used as start states of the real DateGenerator and every day->next-day transition is executed and compared with Go's time package; exhaustive for the generator's period, plus long runs outside the cycle.",
   note="Trusts Go's time package as the calendar reference; assumes the generator has no state beyond (day, month, year).",
   technique="explicit-state enumeration of all reachable states/transitions of the date state machine on the real code",
   design_ref="2/C19"),
}
NOT_YET = "check not built yet in this session (work in progress; see DESIGN.md section 2 for the planned model-checking approach)"

def main():
    checks = []
    for pid in ALL:
        c = CHECKS.get(pid)
        if not c: continue
        checks.append({
          "property_id": pid,
          "quick_cmd": "./check %s --tier quick" % pid,
          "thorough_cmd": "./check %s --tier thorough" % pid,
          "evidence_file": "evidence/%s.json" % pid,
          "replay_cmd_template": "./check %s --replay {path}" % pid,
          "engine": c["engine"],
          "level_claimed": {"category": c["level"], "text": c["text"], "design_ref": "DESIGN.md " + c["design_ref"]},
          "level_note": c["note"],
          "technique": c["technique"],
        })
    na = [{"property_id": p, "reason": NA.get(p, NOT_YET)} for p in ALL if p not in CHECKS]
    m = {
      "version": 1,
      "setup_cmd": "./scripts/setup.sh",
      "hooks": {
        "guard": "verif",
        "enable": "no source hooks: checks instrument /repo's current working tree at build time (go/ast rewrite + go build -overlay, fake gonum hdf5 module via replace); the 'verif' tag is reserved and unused",
        "baseline_off_cmd": "cd /repo && GOFLAGS=-mod=mod GOPROXY=off GOSUMDB=off GOTOOLCHAIN=local go test -mod=mod -json -vet=off -count=1 -timeout 25m ./...",
        "source_commits": [],
        "add_only": True,
      },
      "engines": ENGINES,
      "checks": checks,
      "not_applicable": na,
      "notes": "Every check: ./check <id> --tier quick|thorough rebuilds the harness against /repo's working tree, runs worker subprocesses, rewrites evidence/<id>.json and replays/<id>/*.json; KNOWN_FINDINGS.txt lists recorded defects (known:) and repaired ones (fixed:).",
    }
    with open(os.path.join(ROOT, "MANIFEST.json"), "w") as f:
        json.dump(m, f, indent=1); f.write("\n")

NA = {}
ENGINES = [
  {"name": "vf", "path": "vf/", "serves_properties": ALL, "kind_free_text": "supervisor + crash-tolerant worker subprocesses for bounded-exhaustive enumeration; evidence, known-findings, replay"},
  {"name": "seqx", "path": "checks/c14, checks/seqx", "serves_properties": ["C01","C02","C03","C08","C14","C17"], "kind_free_text": "explicit-state search over operation sequences of a sequential API against a reference model / differential oracle"},
  {"name": "gridx", "path": "checks/", "serves_properties": ["C04","C06","C10","C11","C12","C13","C15","C16","C18","C19","C20"], "kind_free_text": "bounded-exhaustive enumeration of parameter grids x all input words over finite alphabets through the real model objects"},
]
if __name__ == "__main__":
    main()
