#!/bin/sh
# C03: builds libopenwater.so from /repo's working tree and the C driver, then runs the check.
cd /verif || exit 2
. ./scripts/env.sh
mkdir -p .build
cp /repo/go.sum ./go.sum 2>/dev/null
(cd /repo && go build -buildmode=c-shared -o /verif/.build/libopenwater.so ./libopenwater) || { echo "cannot build libopenwater.so" >&2; exit 2; }
gcc -O1 -o .build/cabi_driver cabi/driver.c -ldl || { echo "cannot build the C driver" >&2; exit 2; }
go build -o .build/owcheck-C03 ./cmd/owcheck || { echo "build failed for C03" >&2; exit 2; }
exec .build/owcheck-C03 C03 "$@"
