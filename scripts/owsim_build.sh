#!/bin/sh
# Builds .build/owsim-check: the real cmd/ow-sim package (rewritten for the controlled scheduler, probes
# added, func main renamed) + /verif/overlay/owsim_verif_main.go, compiled with -race against fakehdf5.
cd /verif || exit 2
TAG=${1:-owsim}
. ./scripts/env.sh
mkdir -p .build/bin
cp /repo/go.sum ./go.sum 2>/dev/null
go build -o .build/bin/rewrite-$TAG ./tools/rewrite || exit 2
# exit 3 = ow-sim builds as it is, but cannot be instrumented: the caller reports "not decided"
cannot() { echo "$1" >&2; if go build -o /dev/null github.com/flowmatters/openwater-core/cmd/ow-sim 2>/dev/null; then exit 3; fi; exit 2; }
rm -rf .build/rw/owsim-$TAG && mkdir -p .build/rw/owsim-$TAG
cp overlay/owsim_verif_main.go.txt .build/rw/owsim-$TAG/owsim_zz_verif_main.go
FILES="/repo/cmd/ow-sim/main.go /repo/cmd/ow-sim/running.go /repo/cmd/ow-sim/simulation_model_reference.go /repo/io/hdf5_util.go $(ls /repo/models/*/generated_*.go)"
.build/bin/rewrite-$TAG -out .build/rw/owsim-$TAG -rename-main owsimOriginalMain \
  -probe runGeneration:0 -probe writeGeneration:0 -probe PurgeGeneration:0 -probe GetGeneration:0 \
  -add /repo/cmd/ow-sim=/verif/.build/rw/owsim-$TAG/owsim_zz_verif_main.go $FILES || cannot "the rewriter cannot model this tree"
RACE="-race"
[ "$OWSIM_NORACE" = 1 ] && RACE=""
go build -ldflags '-X owverif.local/verif/vrt.Instrumented=yes' $RACE -overlay .build/rw/owsim-$TAG/overlay.json -o .build/owsim-check-$TAG github.com/flowmatters/openwater-core/cmd/ow-sim || cannot "instrumented ow-sim build failed"
