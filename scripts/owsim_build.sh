#!/bin/sh
# Builds .build/owsim-check: the real cmd/ow-sim package (rewritten for the controlled scheduler, probes
# added, func main renamed) + /verif/overlay/owsim_verif_main.go, compiled with -race against fakehdf5.
cd /verif || exit 2
TAG=${1:-owsim}
. ./scripts/env.sh
mkdir -p .build/bin
cp /repo/go.sum ./go.sum 2>/dev/null
go build -o .build/bin/rewrite-$TAG ./tools/rewrite || exit 2
# exit 3 = ow-sim builds as it is, but cannot be instrumented: the caller reports "not decided"
cannot() { echo "$1" >&2; if go build -o /dev/null github.com/flowmatters/openwater-core/cmd/ow-sim 2>/dev/null; then exit 3; fi; exit 2; }
rm -rf .build/rw/owsim-$TAG && mkdir -p .build/rw/owsim-$TAG
cp overlay/owsim_verif_main.go.txt .build/rw/owsim-$TAG/owsim_zz_verif_main.go
# every non-test Go file of the packages that may start goroutines or take locks; files in which nothing is rewritten stay as they are
FILES="$(find /repo/cmd/ow-sim /repo/io /repo/sim /repo/models -name '*.go' ! -name '*_test.go' | sort)"
.build/bin/rewrite-$TAG -skip-unchanged -out .build/rw/owsim-$TAG -rename-main owsimOriginalMain \
  -probe runGeneration:0 -probe writeGeneration:0 -probe PurgeGeneration:0 -probe GetGeneration:0 \
  -add /repo/cmd/ow-sim=/verif/.build/rw/owsim-$TAG/owsim_zz_verif_main.go $FILES || cannot "the rewriter cannot model this tree"
PROBES=$(python3 -c "import json;print(json.load(open('.build/rw/owsim-$TAG/summary.json')).get('probe',0))" 2>/dev/null || echo 0)
RACE="-race"
[ "$OWSIM_NORACE" = 1 ] && RACE=""
go build -ldflags "-X owverif.local/verif/vrt.Instrumented=yes -X owverif.local/verif/vrt.ProbeCount=$PROBES" $RACE -overlay .build/rw/owsim-$TAG/overlay.json -o .build/owsim-check-$TAG github.com/flowmatters/openwater-core/cmd/ow-sim || cannot "instrumented ow-sim build failed"
