#!/usr/bin/env python3
"""Evaluate one candidate seeded change:
   seed_eval.py <prop-id> <dir with patch.diff + demo (*_test.go) + notes.txt> [--keep-as <name>]
 1. in a scratch worktree of /repo HEAD: the patch applies and builds, the baseline tests pass with it,
    the demo fails with it and passes without it;
 2. applied to /repo itself: ./check <id> --tier quick (then thorough if quick is silent); reverted afterwards;
 3. with --keep-as: files are copied to /verif/seeded/<name>/ with meta.json.
"""
import json, os, re, shutil, subprocess, sys, glob, time
ENV = dict(os.environ, GOFLAGS='-mod=mod', GOPROXY='off', GOSUMDB='off', GOTOOLCHAIN='local')
PKGDIR = {'io':'io','data':'data','cdata':'data/cdata','functions':'models/functions','climate':'models/climate','routing':'models/routing','storage':'models/storage','rr':'models/rr',
          'sim':'sim','fn':'util/fn','conversion':'models/conversion','generation':'models/generation','models':'models','main':None, 'units':'conv/units'}
BASE = 'go test -mod=mod -vet=off -count=1 ./data/... ./io/json/... ./util/...'
BUILD = 'go build ./data/... ./sim/... ./models/... ./util/... ./conv/... ./libopenwater/...'

def sh(cmd, cwd, timeout=1200):
    p = subprocess.run(cmd, shell=True, cwd=cwd, env=ENV, stdout=subprocess.PIPE, stderr=subprocess.STDOUT, timeout=timeout)
    return p.returncode, p.stdout.decode(errors='replace')

def demo_target(demo, wt, notes):
    src = open(demo).read()
    m = re.search(r'^package\s+(\w+)', src, re.M)
    pkg = m.group(1)
    base = pkg[:-5] if pkg.endswith('_test') else pkg
    # explicit hint in the notes ("copy to X/")
    hint = re.search(r'(?:copy|place)[^\n]*?\s((?:[\w\-]+/)+)[\w\-\.]*_test\.go', notes)
    if hint and os.path.isdir(os.path.join(wt, hint.group(1))):
        return hint.group(1).rstrip('/')
    d = PKGDIR.get(base)
    if d is None:
        # search a directory whose package matches
        for root, _, files in os.walk(wt):
            for f in files:
                if f.endswith('.go') and not f.endswith('_test.go'):
                    if re.search(r'^package\s+%s\b' % base, open(os.path.join(root, f)).read(), re.M):
                        return os.path.relpath(root, wt)
    return d

def main():
    pid, d = sys.argv[1], sys.argv[2].rstrip('/')
    keep = sys.argv[sys.argv.index('--keep-as')+1] if '--keep-as' in sys.argv else None
    patch = os.path.join(d, 'patch.diff')
    demos = [f for f in glob.glob(os.path.join(d, '*_test.go'))]
    notes = open(os.path.join(d, 'notes.txt')).read() if os.path.exists(os.path.join(d, 'notes.txt')) else ''
    res = {'property': pid, 'source': d}
    wt = '/tmp/seedwt_%d' % os.getpid()
    subprocess.run(['git','-C','/repo','worktree','add','-q','--detach',wt,'HEAD'], check=True)
    try:
        rc, out = sh('git apply --check %s' % patch, wt)
        three = ''
        if rc != 0:
            rc, out = sh('git apply --3way %s' % patch, wt)
            three = ' (3-way)'
            if rc != 0:
                res['applies'] = False; res['error'] = out[-400:]; print(json.dumps(res, indent=1)); return 2
        else:
            sh('git apply %s' % patch, wt)
        res['applies'] = True
        rc, out = sh('git diff HEAD > /tmp/seed_rebased_%d.diff; git diff HEAD --stat' % os.getpid(), wt)
        res['diffstat'] = out.strip().splitlines()[-1] if out.strip() else ''
        rc, out = sh(BUILD, wt); res['builds'] = rc == 0
        if rc != 0: res['error'] = out[-600:]
        rc, out = sh(BASE, wt); res['baseline_passes_with_change'] = rc == 0
        if rc != 0: res['baseline_out'] = out[-600:]
        demo_ok = None
        if demos:
            tgt = demo_target(demos[0], wt, notes)
            res['demo_dir'] = tgt
            names = []
            for dm in demos:
                shutil.copy(dm, os.path.join(wt, tgt, os.path.basename(dm))); names.append(os.path.basename(dm))
            tests = []
            for dm in demos:
                tests += re.findall(r'^func (Test\w+)\(', open(dm).read(), re.M)
            extra = "-run '^(%s)$' " % '|'.join(tests) if tests else ''
            if tgt.startswith('io') and not tgt.startswith('io/json') or tgt.startswith('cmd/ow-sim'):
                # no libhdf5 here: run the demo against /verif's in-memory stand-in through an alternative go.mod
                mf = '/tmp/seed_fake_%d.mod' % os.getpid()
                open(mf,'w').write(open(os.path.join(wt,'go.mod')).read() + '\nreplace gonum.org/v1/hdf5 => /verif/fakehdf5\n')
                shutil.copy(os.path.join(wt,'go.sum'), mf[:-4]+'.sum')
                extra += '-modfile=%s ' % mf
                res['demo_run_against'] = '/verif/fakehdf5 (no libhdf5 in the image)'
            rc1, out1 = sh('go test -mod=mod %s-vet=off -count=1 ./%s/' % (extra, tgt), wt)
            res['demo_fails_with_change'] = rc1 != 0
            sh('git checkout -q -- .', wt)
            rc2, out2 = sh('go test -mod=mod %s-vet=off -count=1 ./%s/' % (extra, tgt), wt)
            res['demo_passes_without_change'] = rc2 == 0
            if rc2 != 0: res['demo_clean_out'] = out2[-500:]
            if rc1 == 0: res['demo_mut_out'] = out1[-300:]
        else:
            res['demo'] = 'no *_test.go demo found'
    finally:
        subprocess.run(['git','-C','/repo','worktree','remove','--force',wt])
    # run the check against /repo itself
    rebased = '/tmp/seed_rebased_%d.diff' % os.getpid()
    st = subprocess.run(['git','-C','/repo','status','--porcelain'], stdout=subprocess.PIPE).stdout.decode().strip()
    if st:
        print('REFUSING: /repo is not clean:\n' + st); return 3
    try:
        subprocess.run(['git','-C','/repo','apply',rebased], check=True)
        checks = [pid] + [a for a in sys.argv[3:] if re.match(r'^C\d\d$', a)]
        res['checks'] = {}
        for cid in checks:
            for tier in ('quick','thorough'):
                if tier == 'thorough' and cid in os.environ.get('SEED_EVAL_NO_THOROUGH','').split(','):
                    continue
                t0=time.time()
                p = subprocess.run(['./check', cid, '--tier', tier], cwd='/verif', stdout=subprocess.PIPE, stderr=subprocess.STDOUT)
                out = p.stdout.decode(errors='replace')
                viol = [l for l in out.splitlines() if l.startswith('VIOLATION')]
                res['checks']['%s/%s' % (cid, tier)] = {'exit': p.returncode, 'violations': len(viol), 'first': viol[0][:300] if viol else '', 'wall_s': round(time.time()-t0,1)}
                if p.returncode == 1 and viol:
                    break
    finally:
        subprocess.run(['git','-C','/repo','checkout','--','.'])
        subprocess.run(['git','-C','/repo','clean','-fdq'])
    caught = any(v['exit']==1 and v['violations']>0 for v in res['checks'].values())
    res['caught'] = caught
    valid = res.get('builds') and res.get('baseline_passes_with_change') and res.get('demo_fails_with_change') and res.get('demo_passes_without_change')
    res['valid_seed'] = bool(valid)
    print(json.dumps(res, indent=1))
    if keep and valid:
        dst = os.path.join('/verif/seeded', keep)
        os.makedirs(dst, exist_ok=True)
        shutil.copy(rebased, os.path.join(dst, 'patch.diff'))
        for dm in demos: shutil.copy(dm, dst)
        if notes: open(os.path.join(dst,'notes.txt'),'w').write(notes)
        meta = {'property': pid, 'needs_to_manifest': notes.strip()[:1500], 'demo_dir': res.get('demo_dir'),
                'verified': {'applies_to_repo_head': True, 'builds': res['builds'], 'baseline_tests_pass_with_change': res['baseline_passes_with_change'],
                             'demo_fails_with_change': res['demo_fails_with_change'], 'demo_passes_without_change': res['demo_passes_without_change']},
                'what_i_ran': ['git apply patch.diff (scratch worktree of /repo HEAD)', BUILD, BASE, 'go test ./<demo_dir>/ with and without the change', './check %s --tier quick|thorough with the change applied to /repo, then git checkout -- .' % pid],
                'check_results': res['checks'], 'caught': caught}
        json.dump(meta, open(os.path.join(dst,'meta.json'),'w'), indent=1)
    os.remove(rebased)
    return 0
sys.exit(main())
